// Demonstration for a C08 finding: the row-mapping helpers never look at Rows.Err(). When the iteration stops
// because of an error (here: the context is cancelled while rows are being read) they report success with the rows
// seen so far: a read operation of the database interface silently answers a truncated result.
// Intended path: internal/db_impl/sqlite3/utils/zz_c08_rows_err_test.go (package utils)
// Run: go test -vet=off -count=1 -timeout 60s -run TestC08RowsErr ./internal/db_impl/sqlite3/utils/
package utils

import (
	"context"
	"database/sql"
	"testing"
	"time"

	_ "github.com/mattn/go-sqlite3"
	"github.com/stretchr/testify/require"
)

func c08OpenDB(t *testing.T) *sql.DB {
	db, err := sql.Open("sqlite3", "file::memory:?cache=shared")
	require.NoError(t, err)
	db.SetMaxOpenConns(1)

	_, err = db.Exec("CREATE TABLE t (v INTEGER)")
	require.NoError(t, err)

	for i := 0; i < 2000; i++ {
		_, err = db.Exec("INSERT INTO t (v) VALUES (?)", i)
		require.NoError(t, err)
	}

	return db
}

func TestC08RowsErrTruncatedResultIsAnError(t *testing.T) {
	db := c08OpenDB(t)
	defer db.Close()

	ctx, cancel := context.WithCancel(context.Background())
	defer cancel()

	seen := 0

	res, err := MapQueryRowsFn(ctx, DBWrapper{DB: db}, "SELECT v FROM t", func(s RowScanner) (int, error) {
		var v int
		if err := s.Scan(&v); err != nil {
			return 0, err
		}

		seen++
		if seen == 10 {
			// the iteration fails from here on: database/sql closes the rows with the context's error
			cancel()
			time.Sleep(100 * time.Millisecond)
		}

		return v, nil
	})

	// either everything or an error - never a silent prefix
	if err == nil {
		require.Len(t, res, 2000)
	}
}

func TestC08RowsErrForEachTruncatedIsAnError(t *testing.T) {
	db := c08OpenDB(t)
	defer db.Close()

	ctx, cancel := context.WithCancel(context.Background())
	defer cancel()

	seen := 0

	err := QueryForEachRow(ctx, DBWrapper{DB: db}, "SELECT v FROM t", func(s RowScanner) error {
		var v int
		if err := s.Scan(&v); err != nil {
			return err
		}

		seen++
		if seen == 10 {
			cancel()
			time.Sleep(100 * time.Millisecond)
		}

		return nil
	})

	if err == nil {
		require.Equal(t, 2000, seen)
	}
}

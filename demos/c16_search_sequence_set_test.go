// Demonstration for the C16 findings in SEARCH:
//  (a) a sequence-number key beyond the current message count is answered OK (RFC 3501 / property: BAD);
//  (b) a UID key on an empty mailbox is answered NO (UID sets silently match nothing).
// Intended path: tests/zz_c16_search_sequence_set_test.go (package tests)
// Run: go test -vet=off -count=1 -timeout 60s -run TestC16Search ./tests/
package tests

import "testing"

func TestC16SearchSequenceNumberBeyondView(t *testing.T) {
	runOneToOneTestWithAuth(t, defaultServerOptions(t), func(c *testConnection, _ *testSession) {
		c.C("b001 CREATE mbox").OK("b001")
		c.doAppend(`mbox`, buildRFC5322TestLiteral(`To: 1@pm.me`)).expect("OK")
		c.doAppend(`mbox`, buildRFC5322TestLiteral(`To: 2@pm.me`)).expect("OK")

		c.C(`A002 SELECT mbox`)
		c.Se(`A002 OK [READ-WRITE] SELECT`)

		// within the view
		c.C(`A003 SEARCH 1:2`)
		c.S(`* SEARCH 1 2`)
		c.Sx(`A003 OK`)

		// beyond the view: like FETCH 5, it is a protocol error
		c.C(`A004 SEARCH 5`)
		c.Sx(`A004 BAD`)

		c.C(`A005 SEARCH 2:9`)
		c.Sx(`A005 BAD`)
	})
}

func TestC16SearchUIDKeyOnEmptyMailbox(t *testing.T) {
	runOneToOneTestWithAuth(t, defaultServerOptions(t), func(c *testConnection, _ *testSession) {
		c.C("b001 CREATE mbox").OK("b001")

		c.C(`A002 SELECT mbox`)
		c.Se(`A002 OK [READ-WRITE] SELECT`)

		c.C(`A003 SEARCH UID 1:*`)
		c.S(`* SEARCH`)
		c.Sx(`A003 OK`)

		c.C(`A004 UID SEARCH UID 1`)
		c.S(`* SEARCH`)
		c.Sx(`A004 OK`)
	})
}

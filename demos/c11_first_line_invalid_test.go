// Demonstration for a C11 finding: when the very first line of a connection is invalid at its first byte (an empty
// line, a line starting with a space or `+`), the parser reports the error at the token *before* the offending one,
// which at that point is still the initial placeholder of type EOF; the session takes the error for the end of the
// input and closes the connection without a completion result. The same line sent later is answered with BAD.
// Intended path: tests/zz_c11_first_line_invalid_test.go (package tests)
// Run: go test -vet=off -count=1 -timeout 60s -run TestC11FirstLineInvalid ./tests/
package tests

import "testing"

func TestC11FirstLineInvalidIsAnsweredWithBad(t *testing.T) {
	runOneToOneTest(t, defaultServerOptions(t), func(c *testConnection, _ *testSession) {
		c.C(`+ NOOP`)
		c.Sx(`BAD`)

		// the session goes on
		c.C(`A1 NOOP`).OK(`A1`)
	})
}

func TestC11LaterLineInvalidIsAnsweredWithBad(t *testing.T) {
	runOneToOneTest(t, defaultServerOptions(t), func(c *testConnection, _ *testSession) {
		c.C(`A1 NOOP`).OK(`A1`)

		c.C(`+ NOOP`)
		c.Sx(`BAD`)

		c.C(`A2 NOOP`).OK(`A2`)
	})
}

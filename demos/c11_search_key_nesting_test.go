// Demonstration for the C11 finding "unbounded recursion in SEARCH key parsing" (was an open known finding):
// the parser recurses once per "(" / NOT / OR, so one line of a few million "(" ends the whole process with
// `fatal error: stack overflow` (it cannot be recovered). Expected: the command is refused with a parser error.
// Intended path: imap/command/zz_c11_search_key_nesting_test.go (package command)
// Run: go test -vet=off -count=1 -timeout 120s -run TestC11SearchKeyNesting ./imap/command/
package command

import (
	"bytes"
	"strings"
	"testing"

	"github.com/ProtonMail/gluon/rfcparser"
	"github.com/stretchr/testify/require"
)

func TestC11SearchKeyNestingIsBounded(t *testing.T) {
	for _, line := range []string{
		"A1 SEARCH " + strings.Repeat("(", 8_000_000) + "\r\n",
		"A1 SEARCH " + strings.Repeat("NOT ", 4_000_000) + "ALL\r\n",
		"A1 SEARCH " + strings.Repeat("OR ALL ", 4_000_000) + "ALL\r\n",
	} {
		p := NewParser(rfcparser.NewScanner(bytes.NewReader([]byte(line))))
		_, err := p.Parse()
		require.Error(t, err)
		require.True(t, rfcparser.IsError(err))
	}
}

func TestC11SearchKeyNestingModerateDepthStillParses(t *testing.T) {
	line := "A1 SEARCH " + strings.Repeat("(", 20) + "ALL" + strings.Repeat(")", 20) + " NOT NOT NOT SEEN\r\n"
	p := NewParser(rfcparser.NewScanner(bytes.NewReader([]byte(line))))
	_, err := p.Parse()
	require.NoError(t, err)
}

// Demonstration for a C10 finding: a command whose tag happens to be `done` (any letter case) was taken for the
// DONE line that ends IDLE: `done NOOP` failed with "expected CR" and was answered with an UNTAGGED BAD.
// DONE is only the whole line `DONE`.
// Intended path: imap/command/zz_c10_tag_done_test.go (package command)
// Run: go test -vet=off -count=1 -run TestC10TagDone ./imap/command/
package command

import (
	"bytes"
	"testing"

	"github.com/ProtonMail/gluon/rfcparser"
	"github.com/stretchr/testify/require"
)

func TestC10TagDoneIsAnOrdinaryTag(t *testing.T) {
	for _, line := range []string{"done NOOP\r\n", "DONE NOOP\r\n", "Done CAPABILITY\r\n"} {
		p := NewParser(rfcparser.NewScanner(bytes.NewReader([]byte(line))))

		cmd, err := p.Parse()
		require.NoError(t, err, line)
		require.Equal(t, line[:4], cmd.Tag)
		require.NotNil(t, cmd.Payload)
		_, isDone := cmd.Payload.(*Done)
		require.False(t, isDone)
	}
}

func TestC10TagDoneAloneStillEndsIdle(t *testing.T) {
	for _, line := range []string{"done\r\n", "DONE\r\n"} {
		p := NewParser(rfcparser.NewScanner(bytes.NewReader([]byte(line))))

		cmd, err := p.Parse()
		require.NoError(t, err, line)
		require.Equal(t, "", cmd.Tag)
		_, isDone := cmd.Payload.(*Done)
		require.True(t, isDone)
	}
}

// Demonstration for the C08 finding "MailboxExistsWithID never answers": the statement text started with "SELEC".
// Intended path: internal/db_impl/sqlite3/zz_c08_mailbox_exists_with_id_test.go (package sqlite3)
// Run: go test -vet=off -count=1 -run TestC08MailboxExistsWithID ./internal/db_impl/sqlite3/
package sqlite3

import (
	"context"
	"testing"

	"github.com/ProtonMail/gluon/db"
	"github.com/ProtonMail/gluon/imap"
	"github.com/stretchr/testify/require"
)

func TestC08MailboxExistsWithID(t *testing.T) {
	ctx := context.Background()

	c, _, err := NewClient(t.TempDir(), "user", false, false)
	require.NoError(t, err)

	defer func() { require.NoError(t, c.Close()) }()

	require.NoError(t, c.Init(ctx, imap.DefaultEpochUIDValidityGenerator()))

	var mbox *db.Mailbox

	require.NoError(t, c.Write(ctx, func(ctx context.Context, tx db.Transaction) error {
		var err error
		mbox, err = tx.CreateMailbox(ctx, "remote-id", "mbox", imap.NewFlagSet(), imap.NewFlagSet(), imap.NewFlagSet(), imap.UID(1))
		return err
	}))

	require.NoError(t, c.Read(ctx, func(ctx context.Context, rd db.ReadOnly) error {
		// model: the mailbox that was just created exists, another id does not
		ok, err := rd.MailboxExistsWithID(ctx, mbox.ID)
		require.NoError(t, err)
		require.True(t, ok)

		ok, err = rd.MailboxExistsWithID(ctx, mbox.ID+1000)
		require.NoError(t, err)
		require.False(t, ok)

		return nil
	}))
}

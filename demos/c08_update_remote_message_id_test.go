// Demonstration for the C08 finding "UpdateRemoteMessageID names a column where the table belongs".
// Intended path: internal/db_impl/sqlite3/zz_c08_update_remote_message_id_test.go (package sqlite3)
// Run: go test -vet=off -count=1 -run TestC08UpdateRemoteMessageID ./internal/db_impl/sqlite3/
package sqlite3

import (
	"context"
	"testing"
	"time"

	"github.com/ProtonMail/gluon/db"
	"github.com/ProtonMail/gluon/imap"
	"github.com/stretchr/testify/require"
)

func TestC08UpdateRemoteMessageID(t *testing.T) {
	ctx := context.Background()

	c, _, err := NewClient(t.TempDir(), "user", false, false)
	require.NoError(t, err)

	defer func() { require.NoError(t, c.Close()) }()

	require.NoError(t, c.Init(ctx, imap.DefaultEpochUIDValidityGenerator()))

	id := imap.NewInternalMessageID()

	require.NoError(t, c.Write(ctx, func(ctx context.Context, tx db.Transaction) error {
		if err := tx.CreateMessages(ctx, &db.CreateMessageReq{
			Message:     imap.Message{ID: "old-remote-id", Flags: imap.NewFlagSet(), Date: time.Unix(1_600_000_000, 0).UTC()},
			InternalID:  id,
			LiteralSize: 1,
		}); err != nil {
			return err
		}

		// model: the message is now known under the new remote id
		return tx.UpdateRemoteMessageID(ctx, id, "new-remote-id")
	}))

	require.NoError(t, c.Read(ctx, func(ctx context.Context, rd db.ReadOnly) error {
		got, err := rd.GetMessageRemoteID(ctx, id)
		require.NoError(t, err)
		require.Equal(t, imap.MessageID("new-remote-id"), got)

		return nil
	}))
}

// Demonstration for the C10 finding "'[' is refused inside atoms and unquoted astrings".
// RFC 3501: ATOM-CHAR = any CHAR except atom-specials; atom-specials = "(" / ")" / "{" / SP / CTL / list-wildcards /
// quoted-specials / resp-specials ("]"). "[" is not among them, so `foo[bar` is a valid atom / astring.
// Intended path: imap/command/zz_c10_lbracket_in_atom_test.go (package command)
// Run: go test -vet=off -count=1 -run TestC10LBracketInAtom ./imap/command/
package command

import (
	"bytes"
	"testing"

	"github.com/ProtonMail/gluon/rfcparser"
	"github.com/stretchr/testify/require"
)

func TestC10LBracketInAtom(t *testing.T) {
	// control: the same name quoted is accepted
	{
		p := NewParser(rfcparser.NewScanner(bytes.NewReader(toIMAPLine(`tag SELECT "foo[bar"`))))
		cmd, err := p.Parse()
		require.NoError(t, err)
		require.Equal(t, Command{Tag: "tag", Payload: &Select{Mailbox: "foo[bar"}}, cmd)
	}

	// written as an atom it is the same command
	p := NewParser(rfcparser.NewScanner(bytes.NewReader(toIMAPLine(`tag SELECT foo[bar`))))
	cmd, err := p.Parse()
	require.NoError(t, err)
	require.Equal(t, Command{Tag: "tag", Payload: &Select{Mailbox: "foo[bar"}}, cmd)
}

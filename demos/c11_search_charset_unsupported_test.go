// Demonstration for a C11 finding: a SEARCH naming a charset that the IANA index knows but has no implementation
// for (UTF-7, UTF-32, CESU-8, ISO-2022-CN, ...) made ianaindex return (nil, nil); the handler then called
// NewDecoder on the nil encoding: nil-pointer panic in the session goroutine, which takes the whole process down
// (the default panic handler does not recover). Expected: NO [BADCHARSET], the session stays usable.
// Intended path: tests/zz_c11_search_charset_unsupported_test.go (package tests)
// Run: go test -vet=off -count=1 -timeout 60s -run TestC11SearchCharset ./tests/
package tests

import "testing"

func TestC11SearchCharsetKnownButUnsupported(t *testing.T) {
	runOneToOneTestWithAuth(t, defaultServerOptions(t), func(c *testConnection, _ *testSession) {
		c.C(`A001 SELECT INBOX`)
		c.Se(`A001 OK [READ-WRITE] SELECT`)

		c.C(`A002 SEARCH CHARSET UTF-7 ALL`)
		c.Sx(`A002 NO \[BADCHARSET`)

		c.C(`A003 SEARCH CHARSET UTF-32 ALL`)
		c.Sx(`A003 NO \[BADCHARSET`)

		// still alive
		c.C(`A004 SEARCH CHARSET UTF-8 ALL`)
		c.S(`* SEARCH`)
		c.Sx(`A004 OK`)
	})
}

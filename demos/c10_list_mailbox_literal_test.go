// Demonstration for a C10 finding: the mailbox pattern of LIST / LSUB given as a literal was not read as a literal.
// `{` is an atom-special, but the list-char test accepted it, so `{3}` itself became the pattern and the literal's
// bytes were read as the next command line (no continuation request was sent either).
// Intended path: imap/command/zz_c10_list_mailbox_literal_test.go (package command)
// Run: go test -vet=off -count=1 -run TestC10ListMailboxLiteral ./imap/command/
package command

import (
	"bytes"
	"testing"

	"github.com/ProtonMail/gluon/rfcparser"
	"github.com/stretchr/testify/require"
)

func TestC10ListMailboxLiteral(t *testing.T) {
	for _, tc := range []struct {
		line string
		want Payload
	}{
		{"tag LIST \"\" {3}\r\nfoo\r\n", &List{Mailbox: "", ListMailbox: "foo"}},
		{"tag LSUB \"\" {2}\r\n%*\r\n", &LSub{Mailbox: "", LSubMailbox: "%*"}},
		{"tag LIST \"\" \"foo\"\r\n", &List{Mailbox: "", ListMailbox: "foo"}},
		{"tag LIST \"\" foo\r\n", &List{Mailbox: "", ListMailbox: "foo"}},
	} {
		p := NewParser(rfcparser.NewScanner(bytes.NewReader([]byte(tc.line))))

		cmd, err := p.Parse()
		require.NoError(t, err, tc.line)
		require.Equal(t, tc.want, cmd.Payload, tc.line)
	}
}

// Demonstration for a C11 finding: CR and LF were accepted as QUOTED-CHARs, so a quoted string without its closing
// quote swallowed the end of its line and every following command line until some `"` arrived: none of those lines
// got a completion result. (TEXT-CHAR excludes CR and LF.)
// Intended path: tests/zz_c11_quoted_string_line_end_test.go (package tests)
// Run: go test -vet=off -count=1 -timeout 60s -run TestC11QuotedStringLineEnd ./tests/
package tests

import "testing"

func TestC11QuotedStringLineEndIsNotSwallowed(t *testing.T) {
	runOneToOneTest(t, defaultServerOptions(t), func(c *testConnection, _ *testSession) {
		c.C(`a1 LOGIN "user`)
		c.Sx(`a1 BAD`)

		c.C(`a2 NOOP`).OK(`a2`)
		c.C(`a3 NOOP`).OK(`a3`)
	})
}

// Demonstration for a C17 finding: an APPEND refused because the mailbox is full (message-count or UID limit) was
// treated like a failure of the remote and kept in the recovery mailbox, which checks no limit: with a limit of one
// message per mailbox, four APPENDs left three messages in `Recovered Messages`.
// Intended path: tests/zz_c17_append_limit_recovery_test.go (package tests)
// Run: go test -vet=off -count=1 -timeout 60s -run TestC17AppendLimit ./tests/
package tests

import (
	"testing"

	"github.com/ProtonMail/gluon/imap"
	"github.com/ProtonMail/gluon/limits"
)

func TestC17AppendLimitRefusalDoesNotFillRecovery(t *testing.T) {
	lim := limits.NewIMAPLimits(100, 1, 1000, 1000) // mailboxes, messages per mailbox, UID, UIDVALIDITY
	runOneToOneTestWithAuth(t, defaultServerOptions(t, withIMAPLimits(lim), withUIDValidityGenerator(imap.NewIncrementalUIDValidityGenerator())), func(c *testConnection, _ *testSession) {
		c.doAppend(`INBOX`, buildRFC5322TestLiteral(`To: 1@pm.me`)).expect("OK")
		c.doAppend(`INBOX`, buildRFC5322TestLiteral(`To: 2@pm.me`)).expect("NO")
		c.doAppend(`INBOX`, buildRFC5322TestLiteral(`To: 3@pm.me`)).expect("NO")
		c.doAppend(`INBOX`, buildRFC5322TestLiteral(`To: 4@pm.me`)).expect("NO")

		c.C(`A1 STATUS "Recovered Messages" (MESSAGES)`)
		c.S(`* STATUS "Recovered Messages" (MESSAGES 0)`)
		c.OK(`A1`)
	})
}

// Demonstration for a C17 finding: CREATE refuses to hand out a UIDVALIDITY at or above the configured maximum,
// RENAME (which creates the missing superiors of the new name and, for INBOX, the mailbox that receives its messages)
// did not look at that limit.
// Intended path: tests/zz_c17_rename_uidvalidity_limit_test.go (package tests)
// Run: go test -vet=off -count=1 -timeout 60s -run TestC17RenameUIDValidity ./tests/
package tests

import (
	"testing"

	"github.com/ProtonMail/gluon/imap"
	"github.com/ProtonMail/gluon/limits"
)

func TestC17RenameUIDValidityLimit(t *testing.T) {
	// mailboxes 100, messages 100, UIDVALIDITY below 5, UID 1000
	lim := limits.NewIMAPLimits(100, 100, 1000, 5) // mailboxes, messages, UID, UIDVALIDITY (below 5)
	runOneToOneTestWithAuth(t, defaultServerOptions(t, withIMAPLimits(lim), withUIDValidityGenerator(imap.NewIncrementalUIDValidityGenerator())), func(c *testConnection, _ *testSession) {
		c.C(`A0 CREATE a`).OK(`A0`)

		// use the values up
		for i := 0; i < 8; i++ {
			c.Cf(`B%d CREATE m%d`, i, i)
			c.Sx(`B\d (OK|NO)`)
		}

		c.C(`A1 CREATE late`)
		c.Sx(`A1 NO`)

		// would create `x` with a UIDVALIDITY beyond the maximum
		c.C(`A2 RENAME a x/y`)
		c.Sx(`A2 NO`)

		c.C(`A3 RENAME INBOX z`)
		c.Sx(`A3 NO`)
	})
}

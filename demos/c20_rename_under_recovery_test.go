// Demonstration for a C14/C20 finding: CREATE refuses every name that starts with the recovery mailbox's name, but
// RENAME only refused the exact name: `RENAME foo "Recovered Messages/x"` put a child under the protected
// (\Noinferiors) recovery mailbox, which is then listed (as \Noselect) although it holds no message.
// Intended path: tests/zz_c20_rename_under_recovery_test.go (package tests)
// Run: go test -vet=off -count=1 -timeout 60s -run TestC20RenameUnderRecovery ./tests/
package tests

import "testing"

func TestC20RenameUnderRecoveryMailboxIsRefused(t *testing.T) {
	runOneToOneTestWithAuth(t, defaultServerOptions(t), func(c *testConnection, _ *testSession) {
		c.C(`A1 CREATE foo`).OK(`A1`)

		// like CREATE "Recovered Messages/x"
		c.C(`A2 CREATE "Recovered Messages/x"`)
		c.Sx(`A2 NO`)

		c.C(`A3 RENAME foo "Recovered Messages/x"`)
		c.Sx(`A3 NO`)

		c.C(`A4 RENAME INBOX "recovered messages/y"`)
		c.Sx(`A4 NO`)

		// the empty recovery mailbox is still not listed, foo is still there
		c.C(`A5 LIST "" *`)
		c.S(`* LIST (\Unmarked) "/" "INBOX"`, `* LIST (\Unmarked) "/" "foo"`)
		c.Sx(`A5 OK`)
	})
}

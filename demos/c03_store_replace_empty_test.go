// Demonstration for the C03 finding "STORE FLAGS with an empty remainder leaves the old flags in the database".
// Intended path: tests/zz_c03_store_replace_empty_test.go (package tests)
// Run: go test -vet=off -count=1 -run TestC03StoreReplaceWithEmptySet ./tests/
package tests

import "testing"

func TestC03StoreReplaceWithEmptySet(t *testing.T) {
	runOneToOneTestWithAuth(t, defaultServerOptions(t), func(c *testConnection, _ *testSession) {
		c.C("b001 CREATE mbox").OK("b001")

		c.doAppend(`mbox`, buildRFC5322TestLiteral(`To: 1@pm.me`), `\Seen`, `\Answered`).expect("OK")
		c.doAppend(`mbox`, buildRFC5322TestLiteral(`To: 2@pm.me`), `\Seen`, `\Flagged`).expect("OK")

		c.C(`A002 SELECT mbox`)
		c.Se(`A002 OK [READ-WRITE] SELECT`)

		// replace the flags of message 1 by the empty set, those of message 2 by \Deleted alone
		c.C(`A003 STORE 1 FLAGS ()`)
		c.S(`* 1 FETCH (FLAGS (\Recent))`)
		c.OK(`A003`)

		c.C(`A004 STORE 2 FLAGS (\Deleted)`)
		c.S(`* 2 FETCH (FLAGS (\Deleted \Recent))`)
		c.OK(`A004`)

		// a fresh view of the mailbox must show the same flags (minus \Recent)
		c.C(`A005 CLOSE`).OK(`A005`)

		c.doAppend(`mbox`, buildRFC5322TestLiteral(`To: 3@pm.me`)).expect("OK")

		c.C(`A006 SELECT mbox`)
		c.Se(`A006 OK [READ-WRITE] SELECT`)

		c.C(`A007 FETCH 1 (FLAGS)`)
		c.S(`* 1 FETCH (FLAGS ())`)
		c.OK(`A007`)
	})
}

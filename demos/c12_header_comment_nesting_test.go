// Demonstration for a C12 finding: the RFC 5322 comment parser recurses once per nested "(" without any bound. An
// address header of a few million "(" (well below the 30 MB literal limit) ends the whole process with
// `fatal error: stack overflow` while the envelope is computed (APPEND, or a message delivered by the connector).
// Intended path: imap/zz_c12_header_comment_nesting_test.go (package imap)
// Run: go test -vet=off -count=1 -timeout 300s -run TestC12HeaderCommentNesting ./imap/
package imap

import (
	"strings"
	"testing"

	"github.com/stretchr/testify/require"
)

func TestC12HeaderCommentNestingIsBounded(t *testing.T) {
	literal := []byte("From: " + strings.Repeat("(", 8_000_000) + "\r\nTo: a@pm.me\r\n\r\nbody\r\n")

	// whatever the envelope says about the unparsable From, computing it must come back
	_, err := NewParsedMessage(literal)
	_ = err
}

func TestC12HeaderCommentModerateNestingStillParses(t *testing.T) {
	literal := []byte("From: " + strings.Repeat("(", 10) + "x" + strings.Repeat(")", 10) + " a@pm.me\r\nTo: b@pm.me\r\n\r\nbody\r\n")

	parsed, err := NewParsedMessage(literal)
	require.NoError(t, err)
	require.Contains(t, parsed.Envelope, `"a" "pm.me"`)
}

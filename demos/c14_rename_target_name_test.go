// Demonstration for a C14 finding: RENAME did not check its new name the way CREATE checks a name: a leading
// hierarchy separator, two adjacent separators and a trailing separator were all accepted and produced mailboxes
// that CREATE can never produce (`/d` with a phantom parent ``, `f//g` with parents `f` and `f/`, `b/` beside `b`).
// Intended path: tests/zz_c14_rename_target_name_test.go (package tests)
// Run: go test -vet=off -count=1 -timeout 60s -run TestC14RenameTargetName ./tests/
package tests

import "testing"

func TestC14RenameTargetNameIsCheckedLikeCreate(t *testing.T) {
	runOneToOneTestWithAuth(t, defaultServerOptions(t), func(c *testConnection, _ *testSession) {
		c.C(`A0 CREATE a`).OK(`A0`)
		c.C(`A1 CREATE c`).OK(`A1`)
		c.C(`A2 CREATE e`).OK(`A2`)

		// what CREATE does with such names
		c.C(`B1 CREATE "/x"`)
		c.Sx(`B1 NO`)
		c.C(`B2 CREATE "x//y"`)
		c.Sx(`B2 NO`)

		c.C(`A3 RENAME c "/d"`)
		c.Sx(`A3 NO`)
		c.C(`A4 RENAME e "f//g"`)
		c.Sx(`A4 NO`)

		// a trailing separator is dropped, as CREATE does
		c.C(`A5 RENAME a "b/"`).OK(`A5`)

		c.C(`A6 LIST "" *`)
		c.S(`* LIST (\Unmarked) "/" "INBOX"`, `* LIST (\Unmarked) "/" "b"`, `* LIST (\Unmarked) "/" "c"`, `* LIST (\Unmarked) "/" "e"`)
		c.OK(`A6`)
	})
}

// Demonstration for a C17 finding: RENAME creates mailboxes (the missing superiors of the new name; when INBOX is
// renamed, the mailbox that receives its messages) without looking at the mailbox-count limit.
// Limit 3 = INBOX + Recovered Messages + one more.
// Intended path: tests/zz_c17_rename_mailbox_limit_test.go (package tests)
// Run: go test -vet=off -count=1 -timeout 60s -run TestC17Rename ./tests/
package tests

import (
	"testing"

	"github.com/ProtonMail/gluon/imap"
	"github.com/ProtonMail/gluon/limits"
)

func TestC17RenameRespectsMailboxLimit(t *testing.T) {
	lim := limits.NewIMAPLimits(3, 10, 1000, 1000)
	runOneToOneTestWithAuth(t, defaultServerOptions(t, withIMAPLimits(lim), withUIDValidityGenerator(imap.NewIncrementalUIDValidityGenerator())), func(c *testConnection, _ *testSession) {
		c.C(`A1 CREATE m1`).OK(`A1`)
		// the limit is reached
		c.C(`A2 CREATE m2`)
		c.Sx(`A2 NO`)

		// would create `x` and `x/y`
		c.C(`A3 RENAME m1 x/y/z`)
		c.Sx(`A3 NO`)

		// would create `in2` beside INBOX
		c.C(`A4 RENAME INBOX in2`)
		c.Sx(`A4 NO`)

		// nothing was created, m1 is still there
		c.C(`A5 LIST "" *`)
		c.S(`* LIST (\Unmarked) "/" "INBOX"`, `* LIST (\Unmarked) "/" "m1"`)
		c.Sx(`A5 OK`)

		// a rename that creates nothing still fits
		c.C(`A6 RENAME m1 m2`).OK(`A6`)
	})
}

// Demonstration for a C04 finding ("the UIDs announced in COPYUID are the ones the messages are later found
// under"): COPYUID sorts its two UID sets independently, but the messages were copied in the order of the written
// sequence set: after `UID COPY 2,1 dst` the answer `COPYUID v 1:2 1:2` claims source 1 -> destination 1, while
// destination UID 1 is the copy of source UID 2.
// Intended path: tests/zz_c04_copyuid_order_test.go (package tests)
// Run: go test -vet=off -count=1 -timeout 60s -run TestC04CopyUIDOrder ./tests/
package tests

import "testing"

func TestC04CopyUIDOrderMatchesAnnouncement(t *testing.T) {
	runOneToOneTestWithAuth(t, defaultServerOptions(t), func(c *testConnection, _ *testSession) {
		c.C("b001 CREATE src").OK("b001")
		c.C("b002 CREATE dst").OK("b002")
		c.doAppend(`src`, buildRFC5322TestLiteral(`To: 1@pm.me`)).expect("OK")
		c.doAppend(`src`, buildRFC5322TestLiteral(`To: 2@pm.me`)).expect("OK")

		c.C(`A001 SELECT src`)
		c.Se(`A001 OK [READ-WRITE] SELECT`)

		c.C(`A002 UID COPY 2,1 dst`)
		c.Sx(`A002 OK \[COPYUID \d+ 1:2 1:2\]`)

		// as announced: source UID 1 (To: 1@pm.me) is destination UID 1
		c.C(`A003 SELECT dst`)
		c.Se(`A003 OK [READ-WRITE] SELECT`)
		c.C(`A004 UID FETCH 1 (BODY.PEEK[HEADER.FIELDS (To)])`)
		c.Sx(`To: 1@pm.me`)
		c.OK(`A004`)
	})
}

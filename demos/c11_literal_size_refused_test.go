// Demonstration for a C11 finding: a literal of size 0 or of 30 MiB and more was refused with a plain error instead
// of a parser error; the session takes every non-parser error for a transport failure and closes the connection
// without any completion result. Expected: a tagged BAD, and the session goes on.
// Intended path: tests/zz_c11_literal_size_refused_test.go (package tests)
// Run: go test -vet=off -count=1 -timeout 60s -run TestC11LiteralSize ./tests/
package tests

import "testing"

func TestC11LiteralSizeRefusedWithBad(t *testing.T) {
	runOneToOneTestWithAuth(t, defaultServerOptions(t), func(c *testConnection, _ *testSession) {
		c.C(`A1 APPEND INBOX {0}`)
		c.Sx(`A1 BAD`)

		c.C(`A2 APPEND INBOX {99999999}`)
		c.Sx(`A2 BAD`)

		// still usable
		c.C(`A3 NOOP`).OK(`A3`)
	})
}

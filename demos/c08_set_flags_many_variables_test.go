// Demonstration for the C08/C03 finding "SetFlagsOnMessages exceeds SQLite's bound-variable limit".
// Intended path: internal/db_impl/sqlite3/zz_c08_set_flags_many_variables_test.go (package sqlite3)
// Run: go test -vet=off -count=1 -run TestC08SetFlagsManyVariables ./internal/db_impl/sqlite3/
package sqlite3

import (
	"context"
	"fmt"
	"testing"
	"time"

	"github.com/ProtonMail/gluon/db"
	"github.com/ProtonMail/gluon/imap"
	"github.com/stretchr/testify/require"
)

func TestC08SetFlagsManyVariables(t *testing.T) {
	ctx := context.Background()

	c, _, err := NewClient(t.TempDir(), "user", false, false)
	require.NoError(t, err)

	defer func() { require.NoError(t, c.Close()) }()

	require.NoError(t, c.Init(ctx, imap.DefaultEpochUIDValidityGenerator()))

	const nMessages, nFlags = 600, 40

	ids := make([]imap.InternalMessageID, 0, nMessages)
	reqs := make([]*db.CreateMessageReq, 0, nMessages)

	for i := 0; i < nMessages; i++ {
		id := imap.NewInternalMessageID()
		ids = append(ids, id)
		reqs = append(reqs, &db.CreateMessageReq{
			Message:     imap.Message{ID: imap.MessageID(fmt.Sprintf("remote-%04d", i)), Flags: imap.NewFlagSet(), Date: time.Unix(1_600_000_000, 0).UTC()},
			InternalID:  id,
			LiteralSize: 1,
		})
	}

	flags := imap.NewFlagSet()
	for i := 0; i < nFlags; i++ {
		flags.AddToSelf(fmt.Sprintf("keyword%02d", i))
	}

	require.NoError(t, c.Write(ctx, func(ctx context.Context, tx db.Transaction) error {
		if err := tx.CreateMessages(ctx, reqs...); err != nil {
			return err
		}

		// model: afterwards every message has exactly these flags
		return tx.SetFlagsOnMessages(ctx, ids, flags)
	}))

	require.NoError(t, c.Read(ctx, func(ctx context.Context, rd db.ReadOnly) error {
		got, err := rd.GetMessagesFlags(ctx, ids)
		require.NoError(t, err)
		require.Len(t, got, nMessages)

		for _, m := range got {
			require.Equal(t, nFlags, m.FlagSet.Len())
		}

		return nil
	}))
}

// Demonstration for the C03 finding "STORE -FLAGS matches the stored spelling of a flag case-sensitively".
// Intended path: tests/zz_c03_store_remove_case_test.go (package tests)
// Run: go test -vet=off -count=1 -run TestC03StoreRemoveFlagOtherCase ./tests/
package tests

import "testing"

func TestC03StoreRemoveFlagOtherCase(t *testing.T) {
	runOneToOneTestWithAuth(t, defaultServerOptions(t), func(c *testConnection, _ *testSession) {
		c.C("b001 CREATE mbox").OK("b001")

		c.doAppend(`mbox`, buildRFC5322TestLiteral(`To: 1@pm.me`), `\Answered`, `Keyword`).expect("OK")

		c.C(`A002 SELECT mbox`)
		c.Se(`A002 OK [READ-WRITE] SELECT`)

		// flags are case-insensitive: removing them in another spelling removes them
		c.C(`A003 STORE 1 -FLAGS (\ANSWERED keyword)`)
		c.S(`* 1 FETCH (FLAGS (\Recent))`)
		c.OK(`A003`)

		// a fresh view of the mailbox must agree
		c.C(`A005 CLOSE`).OK(`A005`)

		c.doAppend(`mbox`, buildRFC5322TestLiteral(`To: 3@pm.me`)).expect("OK")

		c.C(`A006 SELECT mbox`)
		c.Se(`A006 OK [READ-WRITE] SELECT`)

		c.C(`A007 FETCH 1 (FLAGS)`)
		c.S(`* 1 FETCH (FLAGS ())`)
		c.OK(`A007`)
	})
}

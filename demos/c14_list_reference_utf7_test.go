// Demonstration for the C14 finding "the reference argument of LIST / LSUB is not decoded from modified UTF-7".
// Intended path: tests/zz_c14_list_reference_utf7_test.go (package tests)
// Run: go test -vet=off -count=1 -run TestC14ListReferenceUTF7 ./tests/
package tests

import "testing"

func TestC14ListReferenceUTF7(t *testing.T) {
	runOneToOneTestWithAuth(t, defaultServerOptions(t), func(c *testConnection, _ *testSession) {
		c.C(`tag create "&AOk-/x"`).OK(`tag`)

		// reference "" + pattern with the non-ASCII name: found
		c.C(`tag list "" "&AOk-/%"`)
		c.S(`* LIST (\Unmarked) "/" "&AOk-/x"`)
		c.OK(`tag`)

		// the same name split into reference and pattern selects the same mailbox
		c.C(`tag list "&AOk-/" "%"`)
		c.S(`* LIST (\Unmarked) "/" "&AOk-/x"`)
		c.OK(`tag`)

		c.C(`tag lsub "&AOk-/" "%"`)
		c.S(`* LSUB (\Unmarked) "/" "&AOk-/x"`)
		c.OK(`tag`)
	})
}

// Demonstration for a C08 finding: AddFlagsToAllMailboxes / AddPermFlagsToAllMailboxes splice the flag values into
// the statement text between single quotes instead of binding them: a flag that contains a quote (IMAP keywords may:
// `'` is an ATOM-CHAR; connector labels may contain anything) breaks the statement - or changes it.
// Intended path: internal/db_impl/sqlite3/zz_c08_flags_spliced_test.go (package sqlite3)
// Run: go test -vet=off -count=1 -run TestC08FlagsSpliced ./internal/db_impl/sqlite3/
package sqlite3

import (
	"context"
	"testing"

	"github.com/ProtonMail/gluon/db"
	"github.com/ProtonMail/gluon/imap"
	"github.com/stretchr/testify/require"
)

func TestC08FlagsSplicedIntoSQL(t *testing.T) {
	ctx := context.Background()

	c, _, err := NewClient(t.TempDir(), "user", false, false)
	require.NoError(t, err)

	defer func() { require.NoError(t, c.Close()) }()

	require.NoError(t, c.Init(ctx, imap.DefaultEpochUIDValidityGenerator()))

	var mboxID imap.InternalMailboxID

	require.NoError(t, c.Write(ctx, func(ctx context.Context, tx db.Transaction) error {
		mbox, err := tx.CreateMailbox(ctx, "remote-1", "mbox", imap.NewFlagSet(), imap.NewFlagSet(), imap.NewFlagSet(), 1)
		if err != nil {
			return err
		}

		mboxID = mbox.ID

		return nil
	}))

	for _, flag := range []string{"plain", "it's", "what?", "a','b"} {
		require.NoError(t, c.Write(ctx, func(ctx context.Context, tx db.Transaction) error {
			if err := tx.AddFlagsToAllMailboxes(ctx, flag); err != nil {
				return err
			}

			return tx.AddPermFlagsToAllMailboxes(ctx, flag)
		}), "flag %q", flag)

		require.NoError(t, c.Read(ctx, func(ctx context.Context, rd db.ReadOnly) error {
			flags, err := rd.GetMailboxFlags(ctx, mboxID)
			require.NoError(t, err)
			require.True(t, flags.Contains(flag), "flag %q not among %v", flag, flags.ToSlice())

			perm, err := rd.GetMailboxPermanentFlags(ctx, mboxID)
			require.NoError(t, err)
			require.True(t, perm.Contains(flag), "permanent flag %q not among %v", flag, perm.ToSlice())

			return nil
		}))
	}
}

// Demonstration for a C11 finding: a command line ended by a bare LF (`A2 NOOP\n`) is a syntax error ("expected
// CR"); to skip the rest of the offending line the reader then read up to the NEXT line feed - but the offending
// line was already over: the BAD was only sent when the following line had arrived, and that line was swallowed
// without any completion result.
// Intended path: tests/zz_c11_bare_lf_line_test.go (package tests)
// Run: go test -vet=off -count=1 -timeout 60s -run TestC11BareLF ./tests/
package tests

import "testing"

func TestC11BareLFLineDoesNotSwallowTheNextLine(t *testing.T) {
	runOneToOneTestWithAuth(t, defaultServerOptions(t), func(c *testConnection, _ *testSession) {
		// c.C appends CRLF: the first line ends at the bare LF, the second one is complete
		c.C("A2 NOOP\nA3 NOOP")
		c.Sx(`A2 BAD`)
		c.OK(`A3`)

		c.C(`A4 NOOP`).OK(`A4`)
	})
}

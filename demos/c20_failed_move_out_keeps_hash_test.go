// Demonstration for a C20 finding ("kept in Recovered Messages once per distinct message"): a MOVE out of the
// recovery mailbox whose remote labelling fails is answered NO and rolled back - the message stays - but its hash
// had already been forgotten, so the same bytes failing again were stored a second time.
// Intended path: tests/zz_c20_failed_move_out_keeps_hash_test.go (package tests)
// Run: go test -vet=off -count=1 -timeout 60s -run TestC20FailedMoveOut ./tests/
package tests

import (
	"context"
	"fmt"
	"testing"
	"time"

	"github.com/ProtonMail/gluon/connector"
	"github.com/ProtonMail/gluon/imap"
)

type c20LabelFailConnector struct {
	*connector.Dummy
	failCreate bool
	failAdd    bool
}

func (r *c20LabelFailConnector) CreateMessage(ctx context.Context, cache connector.IMAPStateWrite, mboxID imap.MailboxID, literal []byte, flags imap.FlagSet, date time.Time) (imap.Message, []byte, error) {
	if r.failCreate {
		return imap.Message{}, nil, fmt.Errorf("failed")
	}

	return r.Dummy.CreateMessage(ctx, cache, mboxID, literal, flags, date)
}

func (r *c20LabelFailConnector) AddMessagesToMailbox(ctx context.Context, cache connector.IMAPStateWrite, ids []imap.MessageID, mboxID imap.MailboxID) error {
	if r.failAdd {
		return fmt.Errorf("failed")
	}

	return r.Dummy.AddMessagesToMailbox(ctx, cache, ids, mboxID)
}

type c20LabelFailBuilder struct{ conn *c20LabelFailConnector }

func (b *c20LabelFailBuilder) New(usernames []string, password []byte, period time.Duration, flags, permFlags, attrs imap.FlagSet) Connector {
	b.conn = &c20LabelFailConnector{Dummy: connector.NewDummy(usernames, password, period, flags, permFlags, attrs), failCreate: true}
	return b.conn
}

func TestC20FailedMoveOutOfRecoveryKeepsDeduplication(t *testing.T) {
	b := &c20LabelFailBuilder{}
	runOneToOneTestWithAuth(t, defaultServerOptions(t, withConnectorBuilder(b)), func(c *testConnection, s *testSession) {
		s.setUpdatesAllowedToFail("user", true)

		lit := buildRFC5322TestLiteral("To: dup@pm.me")

		// rejected by the remote: kept in the recovery mailbox
		c.doAppend("INBOX", lit).expect("NO")
		c.C(`A1 STATUS "Recovered Messages" (MESSAGES)`)
		c.S(`* STATUS "Recovered Messages" (MESSAGES 1)`)
		c.OK(`A1`)

		// moving it out: the import works, the labelling fails, the command is answered NO and rolled back
		b.conn.failCreate = false
		b.conn.failAdd = true
		c.C(`A2 SELECT "Recovered Messages"`)
		c.Se(`A2 OK [READ-WRITE] SELECT`)
		c.C(`A3 MOVE 1 INBOX`)
		c.Sx(`A3 NO`)
		c.C(`A4 STATUS "Recovered Messages" (MESSAGES)`)
		c.S(`* STATUS "Recovered Messages" (MESSAGES 1)`)
		c.OK(`A4`)

		// the same bytes rejected again: still one copy
		b.conn.failCreate = true
		c.doAppend("INBOX", lit).expect("NO")
		c.C(`A5 STATUS "Recovered Messages" (MESSAGES)`)
		c.S(`* STATUS "Recovered Messages" (MESSAGES 1)`)
		c.OK(`A5`)
	})
}

package main

import (
	"fmt"
	"go/ast"
	"go/token"
	"go/types"
	"os"
	"path/filepath"
	"sort"
	"strings"

	"golang.org/x/tools/go/packages"
)

const repoModule = "github.com/ProtonMail/gluon"

type PkgInfo struct {
	P     *packages.Package
	Path  string
	Funcs map[string]*ast.FuncDecl // "Recv.Name" / "Name"
	Decl  map[*types.Func]*ast.FuncDecl
}

type World struct {
	RepoDir       string
	Fset          *token.FileSet
	Pkgs          map[string]*PkgInfo
	Contracts     map[string]*Contract // pkgpath + "::" + key
	Preds         map[string]*PredDef  // pkgpath + "::" + name
	Frames        []*FrameDecl
	TypeInvs      map[string]*TypeInv    // qualified type name -> invariant
	Ghosts        map[string]*GhostField // pkgpath.Type.$name
	Axioms        []*AxiomDecl
	SpecFiles     []*SpecFile
	Overlay       map[string][]byte
	fileCache     map[string][]byte
	immutableKeys []string
}

func loadWorld(repo string, patterns []string, overlay map[string][]byte) (*World, error) {
	w := &World{RepoDir: repo, Pkgs: map[string]*PkgInfo{}, Contracts: map[string]*Contract{}, Preds: map[string]*PredDef{}, TypeInvs: map[string]*TypeInv{}, Ghosts: map[string]*GhostField{}, Overlay: overlay}
	cfg := &packages.Config{
		Mode: packages.NeedName | packages.NeedSyntax | packages.NeedTypes | packages.NeedTypesInfo | packages.NeedFiles |
			packages.NeedImports | packages.NeedDeps | packages.NeedCompiledGoFiles,
		Dir:        repo,
		BuildFlags: []string{"-tags=verif"},
		Overlay:    overlay,
		Env:        append(os.Environ(), "GOFLAGS=-mod=mod", "GOPROXY=off", "GOSUMDB=off", "GOTOOLCHAIN=local"),
	}
	pkgs, err := packages.Load(cfg, patterns...)
	if err != nil {
		return nil, err
	}
	var errs []string
	packages.Visit(pkgs, nil, func(p *packages.Package) {
		if !strings.HasPrefix(p.PkgPath, repoModule) {
			return
		}
		for _, e := range p.Errors {
			errs = append(errs, e.Error())
		}
		w.Fset = p.Fset
		pi := &PkgInfo{P: p, Path: p.PkgPath, Funcs: map[string]*ast.FuncDecl{}, Decl: map[*types.Func]*ast.FuncDecl{}}
		for _, f := range p.Syntax {
			for _, d := range f.Decls {
				fd, ok := d.(*ast.FuncDecl)
				if !ok {
					continue
				}
				pi.Funcs[funcKey(fd)] = fd
				if obj, ok := p.TypesInfo.Defs[fd.Name].(*types.Func); ok {
					pi.Decl[obj] = fd
				}
			}
		}
		w.Pkgs[p.PkgPath] = pi
	})
	if len(errs) > 0 {
		return nil, fmt.Errorf("type errors in /repo: %s", strings.Join(errs, "; "))
	}
	if w.Fset == nil {
		return nil, fmt.Errorf("no packages loaded")
	}
	return w, nil
}

func funcKey(fd *ast.FuncDecl) string {
	if fd.Recv == nil || len(fd.Recv.List) == 0 {
		return fd.Name.Name
	}
	t := fd.Recv.List[0].Type
	for {
		switch x := t.(type) {
		case *ast.StarExpr:
			t = x.X
			continue
		case *ast.IndexExpr:
			t = x.X
			continue
		case *ast.IndexListExpr:
			t = x.X
			continue
		case *ast.ParenExpr:
			t = x.X
			continue
		}
		break
	}
	if id, ok := t.(*ast.Ident); ok {
		return id.Name + "." + fd.Name.Name
	}
	return "?." + fd.Name.Name
}

func funcObjKey(f *types.Func) (pkg, key string) {
	if f.Pkg() != nil {
		pkg = f.Pkg().Path()
	}
	sig, _ := f.Type().(*types.Signature)
	if sig != nil && sig.Recv() != nil {
		t := sig.Recv().Type()
		if p, ok := t.(*types.Pointer); ok {
			t = p.Elem()
		}
		if n, ok := t.(*types.Named); ok {
			return pkg, n.Obj().Name() + "." + f.Name()
		}
		if n, ok := t.(*types.Alias); ok {
			return pkg, n.Obj().Name() + "." + f.Name()
		}
		return pkg, "?." + f.Name()
	}
	return pkg, f.Name()
}

// loadSpecs reads the in-repo contract files (one per package, build tag verif) and the
// dependency specs under /verif/contracts/deps.
func (w *World) loadSpecs(depsDir string) error {
	var files []struct{ path, pkg string }
	for _, pi := range w.Pkgs {
		if len(pi.P.GoFiles) == 0 {
			continue
		}
		dir := filepath.Dir(pi.P.GoFiles[0])
		p := filepath.Join(dir, "zz_verif_contracts.go")
		if _, err := os.Stat(p); err == nil {
			files = append(files, struct{ path, pkg string }{p, pi.Path})
		}
	}
	deps, _ := filepath.Glob(filepath.Join(depsDir, "*.spec"))
	for _, d := range deps {
		files = append(files, struct{ path, pkg string }{d, ""})
	}
	sort.Slice(files, func(i, j int) bool { return files[i].path < files[j].path })
	for _, f := range files {
		sf, err := parseSpecFile(f.path, f.pkg)
		if err != nil {
			return err
		}
		isDep := f.pkg == ""
		w.SpecFiles = append(w.SpecFiles, sf)
		for _, c := range sf.Contracts {
			if isDep {
				c.Trusted = true
			}
			// no modifies clause means `modifies nothing` (checked for functions of the repository)
			c.HasMod = true
			k := c.Pkg + "::" + c.Key
			if _, dup := w.Contracts[k]; dup {
				return fmt.Errorf("%s:%d: duplicate contract for %s", c.File, c.Line, k)
			}
			w.Contracts[k] = c
		}
		for _, p := range sf.Preds {
			w.Preds[p.Pkg+"::"+p.Name] = p
		}
		w.Frames = append(w.Frames, sf.Frames...)
		w.Axioms = append(w.Axioms, sf.Axioms...)
		for _, g := range sf.Ghosts {
			w.Ghosts[g.Pkg+"."+g.Type+"."+g.Name] = g
		}
		for _, ti := range sf.TypeInvs {
			name := ti.Type
			if !strings.Contains(name, "/") {
				name = ti.Pkg + "." + ti.Type
			}
			w.TypeInvs[name] = ti
		}
	}
	return nil
}

func (w *World) contractFor(f *types.Func) *Contract {
	if f == nil {
		return nil
	}
	if o := f.Origin(); o != nil {
		f = o
	}
	pkg, key := funcObjKey(f)
	return w.Contracts[pkg+"::"+key]
}

func (w *World) findPred(pkg, name string) *PredDef {
	if p := w.Preds[pkg+"::"+name]; p != nil {
		return p
	}
	// predicates defined in dep specs under the pseudo package "spec" are global
	if p := w.Preds["spec::"+name]; p != nil {
		return p
	}
	return nil
}

func (w *World) pos(p token.Pos) string {
	ps := w.Fset.Position(p)
	rel, err := filepath.Rel(w.RepoDir, ps.Filename)
	if err != nil {
		rel = ps.Filename
	}
	return fmt.Sprintf("%s:%d", rel, ps.Line)
}

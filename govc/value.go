package main

import (
	"fmt"
	"go/ast"
	"go/types"
	"sort"
	"strings"
)

// ---------------------------------------------------------------- SMT helpers

func smtAnd(xs ...string) string {
	var ys []string
	for _, x := range xs {
		if x == "true" || x == "" {
			continue
		}
		if x == "false" {
			return "false"
		}
		ys = append(ys, x)
	}
	switch len(ys) {
	case 0:
		return "true"
	case 1:
		return ys[0]
	}
	return "(and " + strings.Join(ys, " ") + ")"
}

func smtOr(xs ...string) string {
	var ys []string
	for _, x := range xs {
		if x == "false" || x == "" {
			continue
		}
		if x == "true" {
			return "true"
		}
		ys = append(ys, x)
	}
	switch len(ys) {
	case 0:
		return "false"
	case 1:
		return ys[0]
	}
	return "(or " + strings.Join(ys, " ") + ")"
}

func smtNot(x string) string {
	switch x {
	case "true":
		return "false"
	case "false":
		return "true"
	}
	if strings.HasPrefix(x, "(not ") && strings.HasSuffix(x, ")") && balanced(x[5:len(x)-1]) {
		return x[5 : len(x)-1]
	}
	return "(not " + x + ")"
}

func balanced(s string) bool {
	d := 0
	for i := 0; i < len(s); i++ {
		switch s[i] {
		case '(':
			d++
		case ')':
			d--
			if d < 0 {
				return false
			}
		case ' ':
			if d == 0 {
				return false
			}
		}
	}
	return d == 0
}

func smtImp(a, b string) string {
	if a == "true" {
		return b
	}
	if b == "true" || a == "false" {
		return "true"
	}
	return "(=> " + a + " " + b + ")"
}

func smtIte(c, a, b string) string {
	if c == "true" {
		return a
	}
	if c == "false" {
		return b
	}
	if a == b {
		return a
	}
	return "(ite " + c + " " + a + " " + b + ")"
}

func smtEq(a, b string) string {
	if a == b {
		return "true"
	}
	return "(= " + a + " " + b + ")"
}

func smtInt(n int64) string {
	if n < 0 {
		return fmt.Sprintf("(- %d)", -n)
	}
	return fmt.Sprintf("%d", n)
}

func sel(a, i string) string           { return "(select " + a + " " + i + ")" }
func sel2(h, a, i string) string       { return "(select " + h + " (pr " + a + " " + i + "))" }
func sto2(h, a, i, v string) string    { return "(store " + h + " (pr " + a + " " + i + ") " + v + ")" }
func sto(a, i, v string) string        { return "(store " + a + " " + i + " " + v + ")" }
func app(f string, a ...string) string { return "(" + f + " " + strings.Join(a, " ") + ")" }

// ---------------------------------------------------------------- values

type VKind int

const (
	VInt VKind = iota // any Int-sorted scalar: integers, refs, strings, interfaces, maps, funcs
	VBool
	VStruct
	VSlice
	VTuple
)

type Value struct {
	K      VKind
	T      types.Type // Go type when known (nil for spec-only integers)
	Term   string
	Fields map[string]*Value // VStruct
	FOrder []string
	Arr    string // VSlice: backing array id
	Off    string
	Len    string
	Cap    string
	Elts   []*Value // VTuple
	// static knowledge about function values (closures passed as arguments)
	Fn *FuncVal
	// static knowledge about pointers obtained with & from a field / element: the location pointed to
	Addr *Loc
}

type FuncVal struct {
	Lit  *ast.FuncLit
	Decl *types.Func
	Env  *State   // defining environment of a literal (captured variables)
	Pkg  *PkgInfo // package in which Lit/Decl body lives
	Recv *Value   // bound receiver of a method value
}

func intV(t string, T types.Type) *Value { return &Value{K: VInt, Term: t, T: T} }
func boolV(t string) *Value              { return &Value{K: VBool, Term: t, T: types.Typ[types.Bool]} }

func (v *Value) String() string {
	switch v.K {
	case VInt, VBool:
		return v.Term
	case VSlice:
		return fmt.Sprintf("slice(%s,%s,%s)", v.Arr, v.Off, v.Len)
	case VStruct:
		var s []string
		for _, f := range v.FOrder {
			s = append(s, f+":"+v.Fields[f].String())
		}
		return "{" + strings.Join(s, " ") + "}"
	case VTuple:
		var s []string
		for _, e := range v.Elts {
			s = append(s, e.String())
		}
		return "(" + strings.Join(s, ", ") + ")"
	}
	return "?"
}

// leaves enumerates the scalar leaves of a value with their path names.
func (v *Value) leaves(prefix string, f func(path string, leaf *Value, isBool bool)) {
	switch v.K {
	case VInt:
		f(prefix, v, false)
	case VBool:
		f(prefix, v, true)
	case VSlice:
		f(prefix+"#arr", &Value{K: VInt, Term: v.Arr}, false)
		f(prefix+"#off", &Value{K: VInt, Term: v.Off}, false)
		f(prefix+"#len", &Value{K: VInt, Term: v.Len}, false)
		f(prefix+"#cap", &Value{K: VInt, Term: v.Cap}, false)
	case VStruct:
		for _, n := range v.FOrder {
			v.Fields[n].leaves(prefix+"."+n, f)
		}
	case VTuple:
		for i, e := range v.Elts {
			e.leaves(fmt.Sprintf("%s.%d", prefix, i), f)
		}
	}
}

// ---------------------------------------------------------------- shapes

type shapeKind int

const (
	shInt shapeKind = iota
	shBool
	shStruct
	shSlice
)

func under(T types.Type) types.Type {
	if T == nil {
		return nil
	}
	if tp, ok := T.(*types.TypeParam); ok {
		return tp.Constraint().Underlying()
	}
	return T.Underlying()
}

func shapeOf(T types.Type) shapeKind {
	switch u := under(T).(type) {
	case *types.Basic:
		if u.Info()&types.IsBoolean != 0 {
			return shBool
		}
		return shInt
	case *types.Struct:
		return shStruct
	case *types.Slice:
		return shSlice
	}
	return shInt
}

func typeKey(T types.Type) string {
	s := types.TypeString(T, func(p *types.Package) string { return p.Path() })
	return s
}

// intRange returns the inclusive range of a sized integer type.
func intRange(T types.Type) (lo, hi string, ok bool) {
	b, isB := under(T).(*types.Basic)
	if !isB {
		return "", "", false
	}
	switch b.Kind() {
	case types.Int, types.Int64, types.UntypedInt:
		if b.Kind() == types.UntypedInt {
			return "", "", false
		}
		return "(- 9223372036854775808)", "9223372036854775807", true
	case types.Int32, types.UntypedRune:
		return "(- 2147483648)", "2147483647", true
	case types.Int16:
		return "(- 32768)", "32767", true
	case types.Int8:
		return "(- 128)", "127", true
	case types.Uint, types.Uint64, types.Uintptr:
		return "0", "18446744073709551615", true
	case types.Uint32:
		return "0", "4294967295", true
	case types.Uint16:
		return "0", "65535", true
	case types.Uint8:
		return "0", "255", true
	}
	return "", "", false
}

func isString(T types.Type) bool {
	b, ok := under(T).(*types.Basic)
	return ok && b.Info()&types.IsString != 0
}

func isInteger(T types.Type) bool {
	b, ok := under(T).(*types.Basic)
	return ok && b.Info()&types.IsInteger != 0
}

func isPointer(T types.Type) bool {
	_, ok := under(T).(*types.Pointer)
	return ok
}

// isRef: values that are references to allocated objects (pointers, maps, channels)
func isRef(T types.Type) bool {
	switch under(T).(type) {
	case *types.Pointer, *types.Map, *types.Chan:
		return true
	}
	return false
}

func isInterface(T types.Type) bool {
	if T == nil {
		return false
	}
	if _, ok := T.(*types.TypeParam); ok {
		return false
	}
	_, ok := T.Underlying().(*types.Interface)
	return ok
}

// ---------------------------------------------------------------- state

type State struct {
	env    map[types.Object]*Value
	heap   map[string]string // component -> current term
	pc     []string
	pcG    []bool // parallel to pc: entry is a branch guard
	alloc  string // current allocation map term (Array Int Bool)
	dead   bool
	ghost  map[string]string // named ghost scalars
	epoch  int
	defers []deferred
	writes map[string][]string // heap component -> outer indices written ("*" = unknown)
	// approx: the state went through an abstraction of this module's own code (a loop summarised by its invariants,
	// a callee summarised by its contract, a heap havoc): a model of it need not be an execution of the function
	approx bool
}

func (s *State) logWrite(comp, outer string) {
	if s.writes == nil {
		s.writes = map[string][]string{}
	}
	for _, w := range s.writes[comp] {
		if w == outer {
			return
		}
	}
	s.writes[comp] = append(append([]string(nil), s.writes[comp]...), outer)
}

func (s *State) clone() *State {
	n := &State{env: make(map[types.Object]*Value, len(s.env)), heap: make(map[string]string, len(s.heap)), alloc: s.alloc, ghost: map[string]string{}, epoch: s.epoch, defers: s.defers, approx: s.approx}
	for k, v := range s.env {
		n.env[k] = v
	}
	for k, v := range s.heap {
		n.heap[k] = v
	}
	for k, v := range s.ghost {
		n.ghost[k] = v
	}
	n.pc = append([]string(nil), s.pc...)
	n.pcG = append([]bool(nil), s.pcG...)
	if s.writes != nil {
		n.writes = make(map[string][]string, len(s.writes))
		for k, v := range s.writes {
			n.writes[k] = v
		}
	}
	return n
}

func (s *State) assume(t string) {
	if t == "true" || t == "" {
		return
	}
	s.pc = append(s.pc, t)
	s.pcG = append(s.pcG, false)
}

// assumeGuard records a branch condition (as opposed to a fact learned on the branch); when paths are merged
// the guards select the branch and the facts become implications guarded by it.
func (s *State) assumeGuard(t string) {
	if t == "" {
		return
	}
	s.pc = append(s.pc, t)
	s.pcG = append(s.pcG, true)
}

func sortedKeys[V any](m map[string]V) []string {
	var ks []string
	for k := range m {
		ks = append(ks, k)
	}
	sort.Strings(ks)
	return ks
}

package main

import (
	"fmt"
	"go/ast"
	"go/token"
	"go/types"
	"reflect"
	"regexp"
	"strings"
)

// Obligation: pc ==> goal, checked by asserting pc and (not goal).
type Obligation struct {
	ID        string // pkg.Func#kind.label@n
	Family    string // pkg.Func#kind.label
	Kind      string
	Func      string
	Pos       string
	Text      string // human-readable clause / expression
	PC        []string
	Goal      string
	DeclMap   map[string]string
	DeclOrder []string
	Axioms    []string
	AxiomKeys map[string][]string
	Distinct  [][]string
	Vacuity   bool // expected to be refuted (sat): guards against contradictory assumptions
	Exact     bool // no loop / callee / heap abstraction on the path: a model is an execution of the function's own code
	Inputs    []InputSym
	// results
	Status  string // discharged | refuted | unknown
	Backend string
	TimeS   float64
	Model   map[string]string
	Answers map[string]string
	SMTFile string
}

type InputSym struct {
	Name string // Go-level name (param, field path)
	Term string // SMT term to evaluate in the model
}

type unsupportedErr struct {
	pos token.Pos
	msg string
}

type VC struct {
	aborted bool // the run ended with an unsupported construct or a contract error
	w        *World
	pkg      *PkgInfo
	fd       *ast.FuncDecl
	fobj     *types.Func
	contract *Contract
	fname    string // pkg-short.Func

	decls     map[string]string
	declOrder []string
	axioms    []string
	axiomSeen map[string]bool
	axiomKeys map[string][]string
	nfresh    int
	strlits   map[string]string
	typeTags  map[string]int

	obls                []*Obligation
	oblCount            map[string]int
	entry               *State
	entryVals           map[string]*Value // params / receiver at entry by name
	resultObjs          []types.Object
	resultNames         []string
	paths               int
	maxPaths            int
	loopOrd             int
	uncontracted        map[string]bool
	depsUsed            map[string]bool
	dropped             map[string]bool
	inputs              []InputSym
	written             map[string]bool // heap components written anywhere in this function (for frame check)
	specMode            int             // >0: evaluating a spec expression (no safety obligations)
	inlineDepth         int
	curInfo             *types.Info
	curPkg              *PkgInfo
	retStack            []*inlineFrame
	wraps               map[string]bool
	noSafety            map[string]bool
	mode                string   // "contract" | "sweep"
	guards              []string // guard stack for short-circuit evaluation
	calleesWithContract map[string]bool
	boxed               map[*types.Var]bool
	callAssertSeen      map[string]bool
	ifaceAsserts        []ifaceAssert
	escapeInfo          map[*types.Var]*escInfo
	curCall             *ast.CallExpr         // the call being evaluated (for confinement of local slices)
	typeTagT            map[string]types.Type // tag -> Go type
	fmtOf               map[string]string     // Sprintf result term -> its constant format string
	boxedAddr           map[*types.Var]bool   // boxed because the address is taken (or a pointer method is called)
	boxScanned          map[ast.Node]bool
	inlineStack         []*types.Func
	assumptions         map[string]bool
	sentinels           map[string]bool
	compSort            map[string]string
	hidden              map[string]*types.Var
	wrapMode            int
	dry                 int
	nepoch              int
	nbound              int
	qdepth              int
	predDepth           int
	inTypeInv           bool
	compLeafT           map[string]types.Type
	loopIndex           map[ast.Node]int
	callIndex           map[*ast.CallExpr]int // ordinal (source order) of a call among the calls of the same callee name
	axiomsLoaded        bool
	frameTargets        map[string][]string
	frameWhole          bool
	epochAlloc          map[int]string
}

type inlineFrame struct {
	results []types.Object
	types   []types.Type
}

func newVC(w *World, pkg *PkgInfo, fd *ast.FuncDecl, c *Contract) *VC {
	vc := &VC{w: w, pkg: pkg, fd: fd, contract: c, decls: map[string]string{}, axiomSeen: map[string]bool{}, axiomKeys: map[string][]string{}, strlits: map[string]string{},
		typeTags: map[string]int{}, oblCount: map[string]int{}, maxPaths: 4000, uncontracted: map[string]bool{}, depsUsed: map[string]bool{},
		dropped: map[string]bool{}, written: map[string]bool{}, wraps: map[string]bool{}, noSafety: map[string]bool{}, mode: "contract",
		calleesWithContract: map[string]bool{}, boxed: map[*types.Var]bool{}, boxedAddr: map[*types.Var]bool{}, callAssertSeen: map[string]bool{}, fmtOf: map[string]string{}, boxScanned: map[ast.Node]bool{}, assumptions: map[string]bool{},
		sentinels: map[string]bool{}, compSort: map[string]string{}, hidden: map[string]*types.Var{}, compLeafT: map[string]types.Type{}, epochAlloc: map[int]string{0: "Alloc0"}}
	vc.curInfo = pkg.P.TypesInfo
	vc.curPkg = pkg
	if fd != nil {
		vc.fobj, _ = pkg.P.TypesInfo.Defs[fd.Name].(*types.Func)
		vc.fname = shortPkg(pkg.Path) + "." + funcKey(fd)
	}
	if c != nil {
		vc.wraps = c.Wraps
		vc.noSafety = c.NoSafety
		if c.Wraps["*"] {
			// `wraps *`: every integer operation of the function has the machine's wrap-around semantics and
			// raises no overflow obligation (for functions whose result is pinned by a functional postcondition)
			vc.wrapMode = 1
		}
	}
	vc.declare("Alloc0", "(Array Int Bool)")
	vc.addAxiom("(not (select Alloc0 0))")
	vc.declareFun("pr", "(Int Int) Int")
	vc.declareFun("pr1", "(Int) Int")
	vc.declareFun("pr2", "(Int) Int")
	vc.addAxiomKeyed([]string{"pr"}, "(forall ((a Int) (i Int)) (! (and (= (pr1 (pr a i)) a) (= (pr2 (pr a i)) i)) :pattern ((pr a i))))")
	vc.declareFun("strlen", "(Int) Int")
	vc.declareFun("qmarks", "(Int) Int")
	vc.addAxiomKeyed([]string{"qmarks"}, "(forall ((s Int)) (! (>= (qmarks s) 0) :pattern ((qmarks s))))")
	vc.addAxiomKeyed([]string{"qmarks"}, "(= (qmarks 0) 0)")
	vc.addAxiomKeyed([]string{"qmarks", "strcat"}, "(forall ((a Int) (b Int)) (! (= (qmarks (strcat a b)) (+ (qmarks a) (qmarks b))) :pattern ((strcat a b))))")
	vc.declareFun("strat", "(Int Int) Int")
	vc.declareFun("strcat", "(Int Int) Int")
	vc.declareFun("typeof", "(Int) Int")
	vc.declareFun("ptrof", "(Int) Int")
	vc.declareFun("mkiface", "(Int Int) Int")
	vc.addAxiom("(forall ((s Int)) (! (>= (strlen s) 0) :pattern ((strlen s))))")
	vc.addAxiomKeyed([]string{"strcat"}, "(forall ((a Int) (b Int)) (! (= (strlen (strcat a b)) (+ (strlen a) (strlen b))) :pattern ((strcat a b))))")
	vc.addAxiomKeyed([]string{"mkiface"}, "(forall ((t Int) (p Int)) (! (and (= (typeof (mkiface t p)) t) (= (ptrof (mkiface t p)) p) (not (= (mkiface t p) 0))) :pattern ((mkiface t p))))")
	vc.addAxiom("(= (strlen 0) 0)")
	return vc
}

func shortPkg(path string) string {
	p := strings.TrimPrefix(path, repoModule+"/")
	if p == repoModule {
		return "gluon"
	}
	return p
}

func (vc *VC) unsupported(n ast.Node, f string, a ...any) {
	var p token.Pos
	if n != nil {
		p = n.Pos()
	}
	panic(unsupportedErr{p, fmt.Sprintf(f, a...)})
}

var mangleRe = regexp.MustCompile(`[^A-Za-z0-9_]`)

func mangle(s string) string { return mangleRe.ReplaceAllString(s, "_") }

// flatSort: level-2 components (elements of slices, map entries) are declared as flat arrays indexed by
// the uninterpreted pair pr(outer, inner); nested SMT arrays make quantifier instantiation diverge.
func flatSort(sort string) string {
	if strings.HasPrefix(sort, "(Array Int (Array Int ") {
		return "(Array Int " + strings.TrimSuffix(strings.TrimPrefix(sort, "(Array Int (Array Int "), "))") + ")"
	}
	return sort
}

func (vc *VC) declare(name, sort string) {
	if _, ok := vc.decls[name]; ok {
		return
	}
	sort = flatSort(sort)
	vc.decls[name] = "(declare-const " + name + " " + sort + ")"
	vc.declOrder = append(vc.declOrder, name)
}

func (vc *VC) declareFun(name, sig string) {
	if _, ok := vc.decls[name]; ok {
		return
	}
	i := strings.LastIndex(sig, ")")
	vc.decls[name] = "(declare-fun " + name + " " + sig[:i+1] + " " + strings.TrimSpace(sig[i+1:]) + ")"
	vc.declOrder = append(vc.declOrder, name)
}

func (vc *VC) addAxiom(a string) {
	if vc.axiomSeen[a] {
		return
	}
	vc.axiomSeen[a] = true
	vc.axioms = append(vc.axioms, a)
}

// addAxiomKeyed: an axiom that is relevant as soon as all of the key symbols are used (the default
// relevance rule requires every declared symbol of the axiom to be used).
func (vc *VC) addAxiomKeyed(keys []string, a string) {
	if vc.axiomSeen[a] {
		return
	}
	vc.addAxiom(a)
	vc.axiomKeys[a] = keys
}

func (vc *VC) fresh(hint, sort string) string {
	vc.nfresh++
	n := fmt.Sprintf("%s_%d", mangle(hint), vc.nfresh)
	vc.declare(n, sort)
	return n
}

func sortAt(leaf string, lvl int) string {
	s := leaf
	for i := 0; i < lvl; i++ {
		s = "(Array Int " + s + ")"
	}
	return s
}

// ---------------------------------------------------------------- heap

func (vc *VC) heapGet(st *State, comp string, sort string) string {
	if t, ok := st.heap[comp]; ok {
		return t
	}
	if sort == "" {
		sort = vc.compSort[comp]
	}
	if old, ok := vc.compSort[comp]; ok && old != sort {
		panic(fmt.Sprintf("component %s used with sorts %s and %s", comp, old, sort))
	}
	vc.compSort[comp] = sort
	ep := st.epoch
	if strings.HasPrefix(comp, "ghost:") || strings.HasPrefix(comp, "local:") || vc.immutableComp(comp) {
		ep = 0 // ghost components and cells of closure-captured locals are not affected by heap havoc (see havocAllHeap)
	}
	n := vc.initialSymEpoch(comp, ep)
	vc.declare(n, sort)
	st.heap[comp] = n
	vc.heapSymWF(n, comp, sort, vc.epochAlloc[st.epoch])
	return n
}

// heapSymWF: typing axioms of a heap symbol, stated when the symbol is introduced: every integer cell is
// within the range of its type; every pointer (and backing-array id) is nil or allocated with respect to the
// allocation map that was current when the symbol was introduced; slice lengths/offsets are non-negative.
func (vc *VC) heapSymWF(sym, comp, sort, alloc string) {
	if alloc == "" {
		alloc = "Alloc0"
	}
	lvl := strings.Count(sort, "(Array")
	if strings.HasSuffix(sort, "Bool)") || sort == "Bool" {
		return
	}
	var cell, binders string
	switch lvl {
	case 0:
		cell = sym
	case 1:
		cell, binders = "(select "+sym+" r)", "((r Int))"
	case 2:
		cell, binders = "(select "+sym+" (pr a i))", "((a Int) (i Int))"
	default:
		return
	}
	var facts []string
	T := vc.compLeafT[comp]
	// "references stored in the heap point to allocated objects" is stated for the cells of objects that exist
	// when the heap symbol is introduced only: cells of objects allocated later (e.g. by a callee whose contract
	// describes the fresh object it returns) hold references to objects that did not exist yet.
	rowAlloc := func(f string) string {
		switch lvl {
		case 1:
			return smtImp(sel(alloc, "r"), f)
		case 2:
			return smtImp(sel(alloc, "a"), f)
		}
		return f
	}
	switch {
	case strings.HasSuffix(comp, "#arr"):
		facts = append(facts, rowAlloc(smtOr(smtEq(cell, "0"), sel(alloc, cell))))
	case strings.HasSuffix(comp, "#len"), strings.HasSuffix(comp, "#off"), strings.HasSuffix(comp, "#cap"):
		facts = append(facts, app("<=", "0", cell, "2305843009213693952"))
	case T != nil && isRef(T):
		facts = append(facts, rowAlloc(smtOr(smtEq(cell, "0"), sel(alloc, cell))))
	case T != nil:
		if lo, hi, ok := intRange(T); ok {
			facts = append(facts, app("<=", lo, cell, hi))
		}
	}
	if T != nil {
		if n := namedOf(T); n != nil {
			if ti := vc.w.TypeInvs[n.Obj().Pkg().Path()+"."+n.Obj().Name()]; ti != nil {
				tmp := &State{env: map[types.Object]*Value{}, heap: map[string]string{}, alloc: alloc, ghost: map[string]string{}}
				facts = append(facts, vc.typeInvTerm(tmp, ti, intV(cell, T)))
			}
		}
	}
	if len(facts) == 0 {
		return
	}
	if lvl == 0 {
		vc.addAxiom(smtAnd(facts...))
		return
	}
	vc.addAxiom("(forall " + binders + " (! " + smtAnd(facts...) + " :pattern (" + cell + ")))")
}

func (vc *VC) heapSet(st *State, comp string, term string) {
	st.heap[comp] = term
	vc.written[comp] = true
}

// rowUpdate replaces a whole row (all cells with outer index `outer`) of a level-2 component: the new heap
// symbol agrees with the old one outside the row; inside, cellFact(i, newCell, oldCell) holds for every i
// (nil: unconstrained). Returns the new heap symbol.
func (vc *VC) rowUpdate(st *State, comp, sort, outer string, cellFact func(i, newCell, oldCell string) string) string {
	return vc.rowUpdatePat(st, comp, sort, outer, cellFact, nil)
}

// rowUpdatePat: like rowUpdate; extraPat(i) gives an additional trigger term for the cell fact (e.g. the source
// cell of a copy, so that a fact known about the source carries over to the copy).
func (vc *VC) rowUpdatePat(st *State, comp, sort, outer string, cellFact func(i, newCell, oldCell string) string, extraPat func(i string) string) string {
	h := vc.heapGet(st, comp, sort)
	n := vc.fresh("H_"+comp, sort)
	st.assume(fmt.Sprintf("(forall ((a!r Int) (i!r Int)) (! (=> (not (= a!r %s)) (= (select %s (pr a!r i!r)) (select %s (pr a!r i!r)))) :pattern ((select %s (pr a!r i!r))) :pattern ((select %s (pr a!r i!r))) :qid rowframe))", outer, n, h, n, h))
	if cellFact != nil {
		nc := fmt.Sprintf("(select %s (pr %s i!r))", n, outer)
		oc := fmt.Sprintf("(select %s (pr %s i!r))", h, outer)
		f := cellFact("i!r", nc, oc)
		if f != "" && f != "true" {
			pats := " :pattern (" + nc + ")"
			if extraPat != nil {
				if p := extraPat("i!r"); p != "" {
					pats += " :pattern (" + p + ")"
				}
			}
			st.assume("(forall ((i!r Int)) (! " + f + pats + " :qid rowcell))")
		}
	}
	st.logWrite(comp, outer)
	vc.heapSet(st, comp, n)
	return n
}

// bindTerm gives a large term a short name to keep formulas small.
func (vc *VC) bindTerm(st *State, hint, sort, term string) string {
	if len(term) < 200 {
		return term
	}
	n := vc.fresh(hint, sort)
	st.assume(smtEq(n, term))
	return n
}

func (vc *VC) heapUpdate(st *State, comp, sort, outer, newTerm string) {
	if outer == "" {
		outer = "*"
	}
	st.logWrite(comp, outer)
	vc.heapSet(st, comp, vc.bindTerm(st, "H_"+comp, sort, newTerm))
}

// loadShape reads a value of type T stored in the component family `comp`.
// acc maps a component term to the term of the addressed cell; lvl is the array nesting level.
func (vc *VC) loadShape(st *State, comp string, T types.Type, lvl int, acc func(h string) string) *Value {
	switch shapeOf(T) {
	case shBool:
		h := vc.heapGet(st, comp, sortAt("Bool", lvl))
		return &Value{K: VBool, Term: acc(h), T: T}
	case shStruct:
		s := under(T).(*types.Struct)
		v := &Value{K: VStruct, T: T, Fields: map[string]*Value{}}
		for i := 0; i < s.NumFields(); i++ {
			f := s.Field(i)
			v.Fields[f.Name()] = vc.loadShape(st, comp+"."+f.Name(), f.Type(), lvl, acc)
			v.FOrder = append(v.FOrder, f.Name())
		}
		return v
	case shSlice:
		v := &Value{K: VSlice, T: T}
		v.Arr = acc(vc.heapGet(st, comp+"#arr", sortAt("Int", lvl)))
		v.Off = acc(vc.heapGet(st, comp+"#off", sortAt("Int", lvl)))
		v.Len = acc(vc.heapGet(st, comp+"#len", sortAt("Int", lvl)))
		v.Cap = acc(vc.heapGet(st, comp+"#cap", sortAt("Int", lvl)))
		st.assume(app("<=", v.Len, v.Cap))
		st.assume(smtImp(smtEq(v.Arr, "0"), smtEq(v.Len, "0")))
		return v
	}
	vc.compLeafT[comp] = T
	h := vc.heapGet(st, comp, sortAt("Int", lvl))
	return intV(acc(h), T)
}

func (vc *VC) storeShape(st *State, comp string, T types.Type, lvl int, outer string, upd func(h, v string) string, val *Value) {
	switch shapeOf(T) {
	case shBool:
		h := vc.heapGet(st, comp, sortAt("Bool", lvl))
		vc.heapUpdate(st, comp, sortAt("Bool", lvl), outer, upd(h, val.Term))
		return
	case shStruct:
		s := under(T).(*types.Struct)
		for i := 0; i < s.NumFields(); i++ {
			f := s.Field(i)
			fv := val.Fields[f.Name()]
			if fv == nil {
				fv = vc.zeroValue(f.Type())
			}
			vc.storeShape(st, comp+"."+f.Name(), f.Type(), lvl, outer, upd, fv)
		}
		return
	case shSlice:
		if val.K != VSlice {
			panic(fmt.Sprintf("storeShape: slice expected for %s, got %v", comp, val))
		}
		for _, p := range [][2]string{{"#arr", val.Arr}, {"#off", val.Off}, {"#len", val.Len}, {"#cap", val.Cap}} {
			h := vc.heapGet(st, comp+p[0], sortAt("Int", lvl))
			vc.heapUpdate(st, comp+p[0], sortAt("Int", lvl), outer, upd(h, p[1]))
		}
		return
	}
	vc.compLeafT[comp] = T
	h := vc.heapGet(st, comp, sortAt("Int", lvl))
	vc.heapUpdate(st, comp, sortAt("Int", lvl), outer, upd(h, val.Term))
}

// maxSliceLen: no Go slice can be longer than the address space; 2^62 keeps index arithmetic far from int64 overflow.
const maxSliceLen = "4611686018427387904"

func (vc *VC) assumeSliceWF(st *State, v *Value) {
	st.assume(app("<=", "0", v.Len))
	st.assume(app("<=", v.Len, v.Cap))
	st.assume(app("<=", "0", v.Off))
	st.assume(app("<=", app("+", v.Off, v.Cap), maxSliceLen))
}

func (vc *VC) assumeTyped(st *State, v *Value) {
	if v.K != VInt || v.T == nil {
		return
	}
	if lo, hi, ok := intRange(v.T); ok {
		st.assume(app("<=", lo, v.Term, hi))
	}
	if isRef(v.T) {
		// every reachable pointer is nil or allocated
		st.assume(smtOr(smtEq(v.Term, "0"), sel(st.alloc, v.Term)))
	}
	vc.assumeTypeInv(st, v)
}

func (vc *VC) assumeTypeInv(st *State, v *Value) {
	if v.K != VInt || v.T == nil {
		return
	}
	if n := namedOf(v.T); n != nil {
		if ti := vc.w.TypeInvs[n.Obj().Pkg().Path()+"."+n.Obj().Name()]; ti != nil {
			st.assume(vc.typeInvTerm(st, ti, v))
		}
	}
}

func namedOf(T types.Type) *types.Named {
	switch t := T.(type) {
	case *types.Named:
		if t.Obj().Pkg() == nil {
			return nil
		}
		return t
	case *types.Alias:
		return namedOf(types.Unalias(t))
	}
	return nil
}

// compOfStruct returns the component prefix for fields of the struct type pointed to.
// confined: the local slice variable v cannot be reached by anybody but this function at the current call: every
// assignment to it is nil / make / append(v, ...), and every other use that could make its backing array known to
// someone else (argument of a call, right-hand side of an assignment to something else, return, composite literal,
// closure) lies textually after the current call and not in a loop around it. The backing array of such a variable is
// not affected by what a callee does to the heap.
func (vc *VC) confined(v *types.Var) bool {
	if vc.fd == nil || vc.fd.Body == nil || vc.curCall == nil || vc.inlineDepth > 0 {
		return false
	}
	if vc.escapeInfo == nil {
		vc.escapeInfo = vc.computeEscapes()
	}
	esc, ok := vc.escapeInfo[v]
	if !ok || esc.never {
		return false
	}
	p := vc.curCall.Pos()
	for _, e := range esc.points {
		if e.pos <= p {
			return false
		}
		// an escape inside a loop that also encloses the call reaches the call on the next iteration
		for _, l := range esc.loops[e.pos] {
			if l.Pos() <= p && p < l.End() {
				return false
			}
		}
	}
	return true
}

type escPoint struct{ pos token.Pos }
type escInfo struct {
	never  bool // some use rules confinement out altogether
	points []escPoint
	loops  map[token.Pos][]ast.Node
}

func (vc *VC) computeEscapes() map[*types.Var]*escInfo {
	info := vc.pkg.P.TypesInfo
	out := map[*types.Var]*escInfo{}
	get := func(id *ast.Ident) (*types.Var, *escInfo) {
		v, ok := info.ObjectOf(id).(*types.Var)
		if !ok || v.IsField() || vc.isGlobal(v) {
			return nil, nil
		}
		if _, isSlice := under(v.Type()).(*types.Slice); !isSlice {
			return nil, nil
		}
		e := out[v]
		if e == nil {
			e = &escInfo{loops: map[token.Pos][]ast.Node{}}
			out[v] = e
		}
		return v, e
	}
	// parameters and results are known to the caller
	mark := func(fl *ast.FieldList) {
		if fl == nil {
			return
		}
		for _, f := range fl.List {
			for _, n := range f.Names {
				if _, e := get(n); e != nil {
					e.never = true
				}
			}
		}
	}
	mark(vc.fd.Type.Params)
	mark(vc.fd.Type.Results)
	if vc.fd.Recv != nil {
		mark(vc.fd.Recv)
	}
	var loops []ast.Node
	var lits int
	var walk func(n ast.Node, safe map[*ast.Ident]bool)
	walk = func(n ast.Node, safe map[*ast.Ident]bool) {
		ast.Inspect(n, func(m ast.Node) bool {
			switch x := m.(type) {
			case *ast.FuncLit:
				lits++
				ast.Inspect(x.Body, func(k ast.Node) bool {
					if id, ok := k.(*ast.Ident); ok {
						if _, e := get(id); e != nil {
							e.never = true
						}
					}
					return true
				})
				lits--
				return false
			case *ast.ForStmt, *ast.RangeStmt:
				loops = append(loops, m)
				if r, ok := x.(*ast.RangeStmt); ok {
					// `range v` reads v only
					if id, ok := ast.Unparen(r.X).(*ast.Ident); ok {
						safe[id] = true
					}
				}
				for _, c := range childrenOf(m) {
					walk(c, safe)
				}
				loops = loops[:len(loops)-1]
				return false
			case *ast.ValueSpec:
				// var v []T (= nil / make / literal): fine; anything else makes v share somebody else's array
				for i, n := range x.Names {
					if _, e := get(n); e != nil && i < len(x.Values) && !ownArray(info, x.Values[i], n) {
						e.never = true
					}
				}
			case *ast.AssignStmt:
				for i, l := range x.Lhs {
					lid, ok := ast.Unparen(l).(*ast.Ident)
					if !ok {
						continue
					}
					safe[lid] = true
					if _, e := get(lid); e != nil {
						if len(x.Lhs) != len(x.Rhs) || !ownArray(info, x.Rhs[i], lid) {
							e.never = true // assigned from a call result, another variable, a sub-slice ...: not its own array
						}
					}
					if i < len(x.Rhs) && len(x.Lhs) == len(x.Rhs) {
						// v = append(v, ...): the first argument is a safe use
						if ce, ok := ast.Unparen(x.Rhs[i]).(*ast.CallExpr); ok {
							if fid, ok := ce.Fun.(*ast.Ident); ok && fid.Name == "append" && len(ce.Args) > 0 {
								if aid, ok := ast.Unparen(ce.Args[0]).(*ast.Ident); ok && info.ObjectOf(aid) == info.ObjectOf(lid) {
									safe[aid] = true
								}
							}
						}
					}
				}
			case *ast.CallExpr:
				if fid, ok := x.Fun.(*ast.Ident); ok && (fid.Name == "len" || fid.Name == "cap") && len(x.Args) == 1 {
					if aid, ok := ast.Unparen(x.Args[0]).(*ast.Ident); ok {
						safe[aid] = true
					}
				}
			case *ast.IndexExpr:
				if id, ok := ast.Unparen(x.X).(*ast.Ident); ok {
					safe[id] = true // element read / write through the variable itself
				}
			case *ast.Ident:
				if safe[x] {
					return true
				}
				if _, e := get(x); e != nil && info.Uses[x] != nil {
					e.points = append(e.points, escPoint{x.Pos()})
					e.loops[x.Pos()] = append([]ast.Node(nil), loops...)
				}
			}
			return true
		})
	}
	walk(vc.fd.Body, map[*ast.Ident]bool{})
	return out
}

// ownArray: the expression gives the variable an array nobody else holds: nil, make, a slice literal, or
// append(v, ...) / append(nil-literal, ...) on the variable itself.
func ownArray(info *types.Info, e ast.Expr, v *ast.Ident) bool {
	switch x := ast.Unparen(e).(type) {
	case *ast.Ident:
		return x.Name == "nil" && info.ObjectOf(x) == types.Universe.Lookup("nil")
	case *ast.CompositeLit:
		return true
	case *ast.CallExpr:
		fid, ok := x.Fun.(*ast.Ident)
		if !ok {
			return false
		}
		if _, isBuiltin := info.ObjectOf(fid).(*types.Builtin); !isBuiltin {
			return false
		}
		switch fid.Name {
		case "make":
			return true
		case "append":
			if len(x.Args) == 0 {
				return false
			}
			aid, ok := ast.Unparen(x.Args[0]).(*ast.Ident)
			return ok && info.ObjectOf(aid) == info.ObjectOf(v)
		}
	}
	return false
}

// childrenOf: the direct child nodes of a loop statement (so that the walker can recurse with the loop on its stack).
func childrenOf(n ast.Node) []ast.Node {
	var out []ast.Node
	switch x := n.(type) {
	case *ast.ForStmt:
		for _, c := range []ast.Node{x.Init, x.Cond, x.Post, x.Body} {
			if c != nil && !reflect.ValueOf(c).IsNil() {
				out = append(out, c)
			}
		}
	case *ast.RangeStmt:
		for _, c := range []ast.Node{x.Key, x.Value, x.X, x.Body} {
			if c != nil && !reflect.ValueOf(c).IsNil() {
				out = append(out, c)
			}
		}
	}
	return out
}

// immutableComp: the component is a struct field that a `frame T.f: none` declaration says is never assigned after
// construction (a whole-module syntactic obligation): no call can change it, so it survives every heap havoc.
func (vc *VC) immutableComp(comp string) bool {
	for _, k := range vc.w.immutable() {
		if comp == k || strings.HasPrefix(comp, k+"#") || strings.HasPrefix(comp, k+".") {
			vc.assumptions["field "+k+" is never assigned after construction (whole-module frame obligation "+k+"#frame)"] = true
			return true
		}
	}
	return false
}

func structCompPrefix(T types.Type) string {
	if p, ok := under(T).(*types.Pointer); ok {
		T = p.Elem()
	}
	if n := namedOf(T); n != nil {
		if n.TypeArgs() != nil && n.TypeArgs().Len() > 0 {
			return typeKey(n)
		}
		return n.Obj().Pkg().Path() + "." + n.Obj().Name()
	}
	return typeKey(T)
}

func (vc *VC) loadField(st *State, ref string, structT types.Type, fname string, fT types.Type) *Value {
	comp := structCompPrefix(structT) + "." + fname
	return vc.loadShape(st, comp, fT, 1, func(h string) string { return sel(h, ref) })
}

func (vc *VC) storeField(st *State, ref string, structT types.Type, fname string, fT types.Type, val *Value) {
	comp := structCompPrefix(structT) + "." + fname
	vc.storeShape(st, comp, fT, 1, ref, func(h, v string) string { return sto(h, ref, v) }, val)
}

func elemCompPrefix(elemT types.Type) string { return "[]" + typeKey(elemT) }

func (vc *VC) loadElem(st *State, s *Value, idx string, elemT types.Type) *Value {
	pos := idx
	if s.Off != "0" {
		pos = app("+", s.Off, idx)
	}
	return vc.loadShape(st, elemCompPrefix(elemT), elemT, 2, func(h string) string { return sel2(h, s.Arr, pos) })
}

func (vc *VC) storeElem(st *State, s *Value, idx string, elemT types.Type, val *Value) {
	pos := idx
	if s.Off != "0" {
		pos = app("+", s.Off, idx)
	}
	vc.storeShape(st, elemCompPrefix(elemT), elemT, 2, s.Arr, func(h, v string) string { return sto2(h, s.Arr, pos, v) }, val)
}

// leafComps lists the heap components (name, sort at level lvl) that make up a value of type T under prefix comp.
func (vc *VC) leafComps(comp string, T types.Type, lvl int, f func(comp, sort string)) {
	switch shapeOf(T) {
	case shBool:
		f(comp, sortAt("Bool", lvl))
	case shStruct:
		s := under(T).(*types.Struct)
		for i := 0; i < s.NumFields(); i++ {
			vc.leafComps(comp+"."+s.Field(i).Name(), s.Field(i).Type(), lvl, f)
		}
	case shSlice:
		for _, x := range []string{"#arr", "#off", "#len", "#cap"} {
			f(comp+x, sortAt("Int", lvl))
		}
	default:
		vc.compLeafT[comp] = T
		f(comp, sortAt("Int", lvl))
	}
}

// ---------------------------------------------------------------- values

func (vc *VC) zeroValue(T types.Type) *Value {
	switch shapeOf(T) {
	case shBool:
		return &Value{K: VBool, Term: "false", T: T}
	case shStruct:
		s := under(T).(*types.Struct)
		v := &Value{K: VStruct, T: T, Fields: map[string]*Value{}}
		for i := 0; i < s.NumFields(); i++ {
			v.Fields[s.Field(i).Name()] = vc.zeroValue(s.Field(i).Type())
			v.FOrder = append(v.FOrder, s.Field(i).Name())
		}
		return v
	case shSlice:
		return &Value{K: VSlice, T: T, Arr: "0", Off: "0", Len: "0", Cap: "0"}
	}
	return intV("0", T)
}

// freshValue creates an unconstrained value of type T (with type-range assumptions).
func (vc *VC) freshValue(st *State, hint string, T types.Type) *Value {
	switch shapeOf(T) {
	case shBool:
		return &Value{K: VBool, Term: vc.fresh(hint, "Bool"), T: T}
	case shStruct:
		s := under(T).(*types.Struct)
		v := &Value{K: VStruct, T: T, Fields: map[string]*Value{}}
		for i := 0; i < s.NumFields(); i++ {
			v.Fields[s.Field(i).Name()] = vc.freshValue(st, hint+"_"+s.Field(i).Name(), s.Field(i).Type())
			v.FOrder = append(v.FOrder, s.Field(i).Name())
		}
		return v
	case shSlice:
		v := &Value{K: VSlice, T: T, Arr: vc.fresh(hint+"_arr", "Int"), Off: vc.fresh(hint+"_off", "Int"), Len: vc.fresh(hint+"_len", "Int"), Cap: vc.fresh(hint+"_cap", "Int")}
		vc.assumeSliceWF(st, v)
		st.assume(smtOr(smtEq(v.Arr, "0"), sel(st.alloc, v.Arr)))
		st.assume(smtImp(smtEq(v.Arr, "0"), smtEq(v.Len, "0")))
		return v
	}
	v := intV(vc.fresh(hint, "Int"), T)
	vc.assumeTyped(st, v)
	return v
}

func (vc *VC) withType(v *Value, T types.Type) *Value {
	n := *v
	n.T = T
	return &n
}

// valueEq builds the equality of two values of the same shape (slices: same header).
func (vc *VC) valueEq(a, b *Value) string {
	if a.K != b.K {
		return "false"
	}
	switch a.K {
	case VInt, VBool:
		return smtEq(a.Term, b.Term)
	case VSlice:
		return smtAnd(smtEq(a.Arr, b.Arr), smtEq(a.Off, b.Off), smtEq(a.Len, b.Len))
	case VStruct:
		var cs []string
		for _, n := range a.FOrder {
			if bf := b.Fields[n]; bf != nil {
				cs = append(cs, vc.valueEq(a.Fields[n], bf))
			}
		}
		return smtAnd(cs...)
	}
	return "false"
}

// iteValue merges two values of identical shape.
func (vc *VC) iteValue(c string, a, b *Value) *Value {
	if a == b {
		return a
	}
	if a == nil || b == nil {
		if a != nil {
			return a
		}
		return b
	}
	switch a.K {
	case VInt, VBool:
		n := *a
		n.Term = smtIte(c, a.Term, b.Term)
		if a.Fn != b.Fn {
			n.Fn = nil
		}
		return &n
	case VSlice:
		if b.K != VSlice {
			return a
		}
		n := *a
		n.Arr, n.Off, n.Len, n.Cap = smtIte(c, a.Arr, b.Arr), smtIte(c, a.Off, b.Off), smtIte(c, a.Len, b.Len), smtIte(c, a.Cap, b.Cap)
		return &n
	case VStruct:
		n := &Value{K: VStruct, T: a.T, Fields: map[string]*Value{}, FOrder: a.FOrder}
		for _, f := range a.FOrder {
			n.Fields[f] = vc.iteValue(c, a.Fields[f], b.Fields[f])
		}
		return n
	case VTuple:
		n := &Value{K: VTuple, T: a.T}
		for i := range a.Elts {
			n.Elts = append(n.Elts, vc.iteValue(c, a.Elts[i], b.Elts[i]))
		}
		return n
	}
	return a
}

// ---------------------------------------------------------------- allocation

func (vc *VC) allocRef(st *State, hint string) string {
	r := vc.fresh(hint, "Int")
	st.assume(smtNot(smtEq(r, "0")))
	st.assume(smtNot(sel(st.alloc, r)))
	na := vc.fresh("Alloc", "(Array Int Bool)")
	st.assume(smtEq(na, sto(st.alloc, r, "true")))
	st.alloc = na
	return r
}

// ---------------------------------------------------------------- strings

func (vc *VC) strLit(s string) string {
	if s == "" {
		return "0"
	}
	if n, ok := vc.strlits[s]; ok {
		return n
	}
	n := fmt.Sprintf("strlit_%d", len(vc.strlits)+1)
	vc.strlits[s] = n
	vc.declare(n, "Int")
	vc.addAxiom(fmt.Sprintf("(= (strlen %s) %d)", n, len(s)))
	vc.addAxiom(fmt.Sprintf("(= (qmarks %s) %d)", n, strings.Count(s, "?")))
	vc.addAxiom(fmt.Sprintf("(not (= %s 0))", n))
	if len(s) <= 48 {
		for i := 0; i < len(s); i++ {
			vc.addAxiom(fmt.Sprintf("(= (strat %s %d) %d)", n, i, s[i]))
		}
	}
	return n
}

func (vc *VC) strLitDistinct() string {
	if len(vc.strlits) < 2 {
		return ""
	}
	var ns []string
	for _, k := range sortedKeys(vc.strlits) {
		ns = append(ns, vc.strlits[k])
	}
	return "(distinct " + strings.Join(ns, " ") + ")"
}

// litOfTerm: the Go string literal a term stands for, if it is one.
func (vc *VC) litOfTerm(t string) (string, bool) {
	for s, n := range vc.strlits {
		if n == t {
			return s, true
		}
	}
	return "", false
}

// ifaceAssert: an assertion v.(I) to an interface type: whether it succeeds is decided by the dynamic type; for every
// concrete type the function mentions the answer is known from its method set (added when the queries are finished).
type ifaceAssert struct {
	ok, val string
	T       types.Type
}

func (vc *VC) typeTag(T types.Type) string {
	k := typeKey(T)
	if n, ok := vc.typeTags[k]; ok {
		return fmt.Sprint(n)
	}
	n := len(vc.typeTags) + 1
	vc.typeTags[k] = n
	if vc.typeTagT == nil {
		vc.typeTagT = map[string]types.Type{}
	}
	vc.typeTagT[fmt.Sprint(n)] = T
	return fmt.Sprint(n)
}

// ---------------------------------------------------------------- obligations

func (vc *VC) pcWithGuards(st *State) []string {
	pc := append([]string(nil), st.pc...)
	pc = append(pc, vc.guards...)
	return pc
}

func (vc *VC) oblige(st *State, kind, label, text string, pos token.Pos, goal string) *Obligation {
	if vc.specMode > 0 {
		return nil
	}
	if kind == "pre" && vc.noSafety["pre"] {
		// guard-only contracts: callee preconditions after the guard are assumed, not checked (stated in evidence)
		return nil
	}
	if goal == "true" {
		// still counted: trivially discharged obligations are real obligations, but skip the solver
	}
	fam := vc.fname + "#" + kind
	if label != "" {
		fam += "." + label
	}
	vc.oblCount[fam]++
	o := &Obligation{ID: fmt.Sprintf("%s@%d", fam, vc.oblCount[fam]), Family: fam, Kind: kind, Func: vc.fname, Text: text, PC: vc.pcWithGuards(st), Goal: goal, Exact: !st.approx}
	if pos.IsValid() {
		o.Pos = vc.w.pos(pos)
	}
	vc.obls = append(vc.obls, o)
	return o
}

var safetyKinds = map[string]bool{"bounds": true, "slice": true, "nil": true, "overflow": true, "narrow": true, "divzero": true, "nilmap": true, "panic": true, "assert-type": true}

func (vc *VC) safety(st *State, kind string, n ast.Node, goal string) {
	if vc.specMode > 0 || vc.noSafety[kind] {
		return
	}
	if goal == "true" {
		return
	}
	text := ""
	var pos token.Pos
	if n != nil {
		pos = n.Pos()
		text = vc.nodeText(n)
	}
	vc.oblige(st, kind, "", text, pos, goal)
	// after the check, execution continues only if it held
	if len(vc.guards) == 0 {
		st.assume(goal)
	} else {
		st.assume(smtImp(smtAnd(vc.guards...), goal))
	}
}

func (vc *VC) nodeText(n ast.Node) string {
	if n == nil {
		return ""
	}
	s := vc.w.Fset.Position(n.Pos())
	e := vc.w.Fset.Position(n.End())
	data := vc.w.fileData(s.Filename)
	if data == nil || s.Offset >= len(data) || e.Offset > len(data) || e.Offset < s.Offset {
		return ""
	}
	t := string(data[s.Offset:e.Offset])
	if len(t) > 160 {
		t = t[:160] + "…"
	}
	return strings.Join(strings.Fields(t), " ")
}

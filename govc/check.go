package main

func cmdCheck(args []string)    {}
func cmdSelftest(args []string) {}

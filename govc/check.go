package main

import (
	"encoding/json"
	"flag"
	"fmt"
	"go/ast"
	"go/types"
	"os"
	"os/exec"
	"path/filepath"
	"runtime"
	"sort"
	"strconv"
	"strings"
	"time"
)

type KnownFinding struct {
	Property string `json:"property"`
	Family   string `json:"family"`
	Witness  string `json:"witness,omitempty"`
	What     string `json:"what"`
	Status   string `json:"status"` // "open" | "fixed"
	Commit   string `json:"commit,omitempty"`
}

type KnownFile struct {
	Findings []KnownFinding `json:"findings"`
}

type Baseline struct {
	// property -> families that discharge on the delivered tree
	Families map[string][]string `json:"families"`
	// function -> local declarations in source order on the delivered tree (lets contracts survive renamed locals)
	Locals map[string][]LocalDecl `json:"locals,omitempty"`
	// function -> loop headers in source order on the delivered tree (`loop N:` clauses survive inserted loops)
	Loops map[string][]string `json:"loops,omitempty"`
}

// loopPrints lists the loop headers of a function in source order ("range <expr>" / "for <cond>").
func loopPrints(fd *ast.FuncDecl) []string {
	var out []string
	if fd == nil || fd.Body == nil {
		return nil
	}
	ast.Inspect(fd.Body, func(n ast.Node) bool {
		switch x := n.(type) {
		case *ast.RangeStmt:
			out = append(out, "range "+types.ExprString(x.X))
		case *ast.ForStmt:
			c := ""
			if x.Cond != nil {
				c = types.ExprString(x.Cond)
			}
			out = append(out, "for "+c)
		}
		return true
	})
	return out
}

var baseLoops map[string][]string

// alignLoops maps the loops of the current function (1-based source order) to the loop ordinals the contract was
// written against: positional when the number of loops is unchanged, otherwise a longest-common-subsequence
// alignment of the loop headers; a loop without a partner gets an ordinal no contract clause names.
func alignLoops(fname string, cur []string) []int {
	out := make([]int, len(cur))
	for i := range out {
		out[i] = i + 1
	}
	if baseLoops == nil {
		loadBaseLocals()
	}
	base, ok := baseLoops[fname]
	if !ok || len(base) == len(cur) {
		return out
	}
	n, m := len(base), len(cur)
	l := make([][]int, n+1)
	for i := range l {
		l[i] = make([]int, m+1)
	}
	for i := n - 1; i >= 0; i-- {
		for j := m - 1; j >= 0; j-- {
			if base[i] == cur[j] {
				l[i][j] = l[i+1][j+1] + 1
			} else if l[i+1][j] >= l[i][j+1] {
				l[i][j] = l[i+1][j]
			} else {
				l[i][j] = l[i][j+1]
			}
		}
	}
	for j := range out {
		out[j] = 100 + j + 1
	}
	i, j := 0, 0
	for i < n && j < m {
		switch {
		case base[i] == cur[j]:
			out[j] = i + 1
			i++
			j++
		case l[i+1][j] >= l[i][j+1]:
			i++
		default:
			j++
		}
	}
	return out
}

type LocalDecl struct {
	Name string `json:"n"`
	Type string `json:"t"`
}

// localDecls lists the variables a function declares (parameters, results, locals, closure parameters) in source order.
func localDecls(info *types.Info, fd *ast.FuncDecl) []LocalDecl {
	var out []LocalDecl
	ast.Inspect(fd, func(n ast.Node) bool {
		if id, ok := n.(*ast.Ident); ok {
			if v, ok := info.Defs[id].(*types.Var); ok && !v.IsField() {
				out = append(out, LocalDecl{Name: v.Name(), Type: types.TypeString(v.Type(), nil)})
			}
		}
		return true
	})
	return out
}

var baseLocals map[string][]LocalDecl

func loadBaseLocals() {
	var base Baseline
	loadJSON(filepath.Join(verifDir, "baseline", "families.json"), &base)
	baseLocals = base.Locals
	baseLoops = base.Loops
	if baseLoops == nil {
		baseLoops = map[string][]string{}
	}
}

func loadJSON(path string, v any) error {
	data, err := os.ReadFile(path)
	if err != nil {
		return err
	}
	return json.Unmarshal(data, v)
}

func hasProp(props []string, p string) bool {
	for _, x := range props {
		if x == p {
			return true
		}
	}
	return false
}

type checkResult struct {
	prop       string
	funcs      []*FuncResult
	synt       []*Obligation // syntactic obligations (frame / callers / target)
	all        []*Obligation
	violations []string
}

func cmdCheck(args []string) {
	fs := flag.NewFlagSet("check", flag.ExitOnError)
	prop := fs.String("prop", "", "property id")
	tier := fs.String("tier", envOr("VERIF_TIER", "quick"), "quick|thorough")
	writeBaseline := fs.Bool("write-baseline", false, "record the families that discharge now as the baseline (by hand only)")
	replayPath := fs.String("replay", "", "re-run a stored replay file")
	fs.Parse(args)
	if *replayPath != "" {
		os.Exit(rerunReplay(*replayPath))
	}
	if *prop == "" {
		fmt.Fprintln(os.Stderr, "check: -prop required")
		os.Exit(2)
	}
	seed, _ := strconv.Atoi(envOr("VERIF_SEED", "0"))
	t0 := time.Now()
	w := loadAll(nil)
	timeout := 10
	if *tier == "thorough" {
		timeout = 60
	}
	work := filepath.Join(verifDir, "work", *prop)
	os.RemoveAll(work)
	os.MkdirAll(work, 0o755)
	cfg := SolverCfg{WorkDir: work, TimeoutS: timeout, Seed: seed, Jobs: runtime.NumCPU(), Thorough: *tier == "thorough"}
	res := runProperty(w, *prop, cfg)
	if *tier == "thorough" && !*writeBaseline && os.Getenv("VERIF_NO_CANARIES") == "" {
		canaryResults = runCanaries(*prop)
	}
	code := report(w, res, *tier, seed, cfg, t0, *writeBaseline)
	os.Exit(code)
}

// runProperty verifies every contract tagged with the property and the syntactic frame/callers declarations.
func runProperty(w *World, prop string, cfg SolverCfg) *checkResult {
	res := &checkResult{prop: prop}
	for _, key := range sortedKeys(w.Contracts) {
		c := w.Contracts[key]
		if c.Trusted || !hasProp(c.Props, prop) {
			continue
		}
		pi := w.Pkgs[c.Pkg]
		fname := shortPkg(c.Pkg) + "." + c.Key
		if pi == nil || pi.Funcs[c.Key] == nil {
			o := &Obligation{ID: fname + "#target@1", Family: fname + "#target", Kind: "target", Func: fname,
				Text: "function under contract no longer exists in /repo (contract at " + c.File + ":" + fmt.Sprint(c.Line) + ")", Status: "unknown", Goal: "false"}
			res.synt = append(res.synt, o)
			continue
		}
		r := w.verifyFunc(pi, pi.Funcs[c.Key], c, "contract")
		if r.OutOfSubset != "" {
			o := &Obligation{ID: fname + "#subset@1", Family: fname + "#subset", Kind: "subset", Func: fname,
				Text: "function left the verified subset: " + r.OutOfSubset, Status: "unknown", Goal: "false"}
			res.synt = append(res.synt, o)
		} else {
			o := &Obligation{ID: fname + "#subset@1", Family: fname + "#subset", Kind: "subset", Func: fname,
				Text: "function is within the verified subset", Status: "discharged", Backend: "syntactic", Goal: "true"}
			res.synt = append(res.synt, o)
		}
		// loops named by the contract must exist
		for n := range c.Loops {
			if n > countLoops(pi.Funcs[c.Key]) {
				o := &Obligation{ID: fmt.Sprintf("%s#target.loop%d@1", fname, n), Family: fmt.Sprintf("%s#target.loop%d", fname, n), Kind: "target", Func: fname,
					Text: fmt.Sprintf("loop %d named by the contract does not exist", n), Status: "unknown", Goal: "false"}
				res.synt = append(res.synt, o)
			}
		}
		res.funcs = append(res.funcs, r)
	}
	res.synt = append(res.synt, w.checkFrames(prop)...)
	res.synt = append(res.synt, w.checkImpls(prop)...)
	if prop == "C11" || prop == "C12" {
		res.synt = append(res.synt, w.checkRecursion(prop)...)
	}
	for _, r := range res.funcs {
		res.all = append(res.all, r.Obls...)
	}
	batchAll(res.funcs, cfg)
	dischargeAll(res.all, cfg)
	res.all = append(res.all, res.synt...)
	return res
}

func report(w *World, res *checkResult, tier string, seed int, cfg SolverCfg, t0 time.Time, writeBaseline bool) int {
	prop := res.prop
	var known KnownFile
	loadJSON(filepath.Join(verifDir, "known_findings.json"), &known)
	var base Baseline
	loadJSON(filepath.Join(verifDir, "baseline", "families.json"), &base)
	if base.Families == nil {
		base.Families = map[string][]string{}
	}
	inBase := map[string]bool{}
	for _, f := range base.Families[prop] {
		inBase[f] = true
	}
	knownFam := map[string]KnownFinding{}
	for _, k := range known.Findings {
		if k.Property == prop && k.Status == "open" {
			knownFam[k.Family] = k
		}
	}
	// group by family
	famStatus := map[string]string{} // discharged | failed
	famObls := map[string][]*Obligation{}
	for _, o := range res.all {
		famObls[o.Family] = append(famObls[o.Family], o)
		if o.Status == "discharged" {
			if famStatus[o.Family] == "" || o.Kind == "vacuity" {
				famStatus[o.Family] = "discharged" // vacuity: one satisfiable path to the point is enough
			}
		} else if !(o.Kind == "vacuity" && famStatus[o.Family] == "discharged") {
			famStatus[o.Family] = "failed"
		}
	}
	if writeBaseline {
		var fams []string
		for f, s := range famStatus {
			if s == "discharged" {
				fams = append(fams, f)
			}
		}
		sort.Strings(fams)
		base.Families[prop] = fams
		if base.Locals == nil {
			base.Locals = map[string][]LocalDecl{}
		}
		if base.Loops == nil {
			base.Loops = map[string][]string{}
		}
		for _, r := range res.funcs {
			if len(r.Locals) > 0 {
				base.Locals[r.Func] = r.Locals
			}
			if len(r.LoopHeaders) > 0 {
				base.Loops[r.Func] = r.LoopHeaders
			}
		}
		os.MkdirAll(filepath.Join(verifDir, "baseline"), 0o755)
		data, _ := json.MarshalIndent(base, "", " ")
		os.WriteFile(filepath.Join(verifDir, "baseline", "families.json"), data, 0o644)
		fmt.Printf("baseline for %s: %d families\n", prop, len(fams))
	}
	replayDir := filepath.Join(verifDir, "replays", prop)
	os.MkdirAll(replayDir, 0o755)
	violations := 0
	var knownLines, undecided []string
	seenKnown := map[string]bool{}
	for _, fam := range sortedKeys(famStatus) {
		if famStatus[fam] != "failed" {
			continue
		}
		var bad *Obligation
		for _, o := range famObls[fam] {
			if o.Status != "discharged" {
				if bad == nil || (o.Status == "refuted" && bad.Status != "refuted") || (o.Status == "refuted" && o.Exact && !bad.Exact) {
					bad = o
				}
			}
		}
		if k, ok := knownFam[fam]; ok {
			if !seenKnown[fam] {
				seenKnown[fam] = true
				line := fmt.Sprintf("KNOWN-FINDING: property=%s %s %s", prop, fam, k.What)
				knownLines = append(knownLines, line)
				fmt.Println(line)
			}
			continue
		}
		rp := writeReplay(w, replayDir, prop, bad)
		suffix := ""
		if rp.Outcome != "reproduced" {
			suffix = " no-failing-input-found"
		}
		if inBase[fam] || len(base.Families[prop]) == 0 {
			violations++
			fmt.Printf("VIOLATION property=%s replay=%s%s\n", prop, rp.Path, suffix)
			fmt.Printf("  obligation %s [%s] at %s: %s\n", bad.ID, bad.Status, bad.Pos, bad.Text)
		} else if rp.Outcome == "reproduced" || (bad.Status == "refuted" && (bad.Exact || bad.Backend == "syntactic")) {
			// an obligation family that is not in the baseline (new code path): a violation when the counterexample
			// fails on the real code, or when the solver exhibits one (sat) on a path that went through no
			// abstraction of the module's own code (no loop summary, no callee contract, no heap havoc) - the model
			// is then an execution of the function; otherwise undecided (new code needs its own invariants)
			violations++
			fmt.Printf("VIOLATION property=%s replay=%s%s\n", prop, rp.Path, suffix)
			fmt.Printf("  obligation %s [%s] at %s: %s\n", bad.ID, bad.Status, bad.Pos, bad.Text)
		} else {
			line := fmt.Sprintf("UNDECIDED property=%s %s [%s] at %s (new obligation family, no replayable counterexample): %s", prop, bad.ID, bad.Status, bad.Pos, bad.Text)
			undecided = append(undecided, line)
			fmt.Println(line)
		}
	}
	// baseline families that vanished entirely (a silent pass with fewer obligations would be vacuous)
	for f := range inBase {
		if _, ok := famStatus[f]; !ok && strings.Contains(f, "#post.") {
			violations++
			o := &Obligation{ID: f + "@0", Family: f, Kind: "target", Text: "obligation family of the baseline produced no obligation on this tree", Status: "unknown"}
			rp := writeReplay(w, replayDir, prop, o)
			fmt.Printf("VIOLATION property=%s replay=%s no-failing-input-found\n", prop, rp.Path)
			fmt.Printf("  family %s produced no obligation\n", f)
		}
	}
	writeEvidence(w, res, tier, seed, cfg, t0, violations, knownLines, undecided, knownFam)
	if violations > 0 {
		return 1
	}
	return 0
}

// ---------------------------------------------------------------- must-fail canaries (thorough tier)

var canaryResults []map[string]any

// runCanaries: every seeded change of this property that the checks are known to catch (seeded/<id>/meta.json) is
// applied to a scratch copy of /repo and the quick check is run on it: it must report a violation. A canary that is
// no longer caught means the machinery lost strength (printed as SELFTEST-MISS, recorded in the evidence); it says
// nothing about the property on the tree under test, so it does not change the exit code.
func runCanaries(prop string) []map[string]any {
	var out []map[string]any
	dirs, _ := filepath.Glob(filepath.Join(verifDir, "seeded", "*", "meta.json"))
	sort.Strings(dirs)
	for _, mf := range dirs {
		var meta struct {
			ID       string `json:"id"`
			Prop     string `json:"breaks_property"`
			Detected bool   `json:"detected"`
			By       []struct {
				Check string `json:"check"`
			} `json:"detected_by"`
		}
		if loadJSON(mf, &meta) != nil || !meta.Detected {
			continue
		}
		mine := false
		for _, b := range meta.By {
			if b.Check == prop {
				mine = true
			}
		}
		if !mine {
			continue
		}
		patch := filepath.Join(filepath.Dir(mf), "patch.diff")
		cmd := exec.Command(filepath.Join(verifDir, "tools", "mutcheck.sh"), patch, prop)
		cmd.Env = append(os.Environ(), "VERIF_TIER=quick", "VERIF_NO_CANARIES=1")
		o, _ := cmd.CombinedOutput()
		caught := strings.Contains(string(o), "VIOLATION property="+prop)
		applied := !strings.Contains(string(o), "PATCH FAILED")
		out = append(out, map[string]any{"seed": meta.ID, "patch_applies": applied, "caught": caught})
		if applied && !caught {
			fmt.Printf("SELFTEST-MISS property=%s seeded change %s is no longer reported\n", prop, meta.ID)
		}
	}
	return out
}

// ---------------------------------------------------------------- evidence

func writeEvidence(w *World, res *checkResult, tier string, seed int, cfg SolverCfg, t0 time.Time, violations int, knownLines, undecided []string, knownFam map[string]KnownFinding) {
	prop := res.prop
	nObl, nDis := 0, 0
	byBackend := map[string]int{}
	solverTime := 0.0
	famSeen := map[string]bool{}
	var fams []map[string]any
	var samples []map[string]any
	knownObl := 0
	// reachability probes: one obligation per program point (family) - the point is reachable under the assumptions
	// when the assumptions of at least one sampled path to it are not contradictory; probes on infeasible paths
	// are not proof obligations
	vacOK := map[string]bool{}
	vacSeen := map[string]bool{}
	probes := 0
	var slow []map[string]any
	for _, o := range res.all {
		if o.Kind == "vacuity" {
			probes++
			if o.Status == "discharged" {
				vacOK[o.Family] = true
			}
		}
	}
	for _, o := range res.all {
		if _, k := knownFam[o.Family]; k && o.Status != "discharged" {
			knownObl++
			continue
		}
		if o.Kind == "vacuity" {
			byBackend[o.Backend]++
			solverTime += o.TimeS
			if vacSeen[o.Family] {
				continue
			}
			vacSeen[o.Family] = true
			nObl++
			st := "vacuous"
			if vacOK[o.Family] {
				nDis++
				st = "discharged"
			}
			famSeen[o.Family] = true
			fams = append(fams, map[string]any{"family": o.Family, "kind": o.Kind, "status": st, "backend": o.Backend, "time_s": round3(o.TimeS)})
			continue
		}
		nObl++
		if o.Status == "discharged" {
			nDis++
		}
		if o.TimeS > 2.0 {
			slow = append(slow, map[string]any{"obligation": o.ID, "time_s": round3(o.TimeS), "backend": o.Backend, "status": o.Status})
		}
		byBackend[o.Backend]++
		solverTime += o.TimeS
		if !famSeen[o.Family] {
			famSeen[o.Family] = true
			fams = append(fams, map[string]any{"family": o.Family, "kind": o.Kind, "status": o.Status, "backend": o.Backend, "time_s": round3(o.TimeS)})
			if len(samples) < 12 && o.Kind != "vacuity" && o.Kind != "subset" {
				samples = append(samples, map[string]any{"obligation": o.ID, "at": o.Pos, "text": o.Text, "status": o.Status, "backend": o.Backend, "smt_file": o.SMTFile})
			}
		}
	}
	var fnames []string
	var uncontracted, deps, dropped, assumptions, outOfSubset []string
	set := func(dst *[]string, xs []string, prefix string) {
		for _, x := range xs {
			*dst = append(*dst, prefix+x)
		}
	}
	for _, r := range res.funcs {
		fnames = append(fnames, r.Func)
		set(&uncontracted, r.Uncontracted, r.Func+": ")
		set(&deps, r.DepsUsed, "")
		set(&dropped, r.Dropped, r.Func+": ")
		set(&assumptions, r.Assumptions, "")
		if r.OutOfSubset != "" {
			outOfSubset = append(outOfSubset, r.Func+": "+r.OutOfSubset)
		}
		for _, rq := range r.Contract.Requires {
			assumptions = append(assumptions, "precondition of "+r.Func+" (established by verified callers only where a pre obligation names it): "+rq.Text)
		}
		for k := range r.Contract.NoSafety {
			assumptions = append(assumptions, r.Func+": safety obligations of kind '"+k+"' not generated (nosafety)")
		}
		for _, n := range r.Contract.Notes {
			assumptions = append(assumptions, r.Func+": "+n)
		}
	}
	deps = uniq(deps)
	assumptions = uniq(assumptions)
	for _, d := range deps {
		assumptions = append(assumptions, "trusted dependency specification: "+d)
	}
	for _, sf := range w.SpecFiles {
		for _, a := range sf.Assumes {
			assumptions = append(assumptions, "scan hit (assume/trusted/axiom): "+a)
		}
	}
	assumptions = append(assumptions,
		"package-level error variables are immutable, non-nil and pairwise distinct",
		"sequential semantics: the verified functions are not interleaved with other goroutines touching the same objects",
		"heap well-formedness at entry: integer cells within their type range, pointers nil or allocated, slice len/cap/off non-negative")
	cov := map[string]any{
		"obligations":                        nObl,
		"discharged":                         nDis,
		"reachability_probes":                probes,
		"selftest_canaries":                  canaryResults,
		"slow_obligations":                   slow,
		"checker_cmd":                        fmt.Sprintf("/verif/bin/govc check -prop %s -tier %s  (VCs from /repo working tree via go/packages -tags=verif; solvers z3-new 5.1 / z3 4.8.12 / cvc5 1.0.x raced, %ds limit)", prop, tier, cfg.TimeoutS),
		"trusted_base":                       append([]string{"govc VC generator (/verif/govc)", "go/packages + go/types (x/tools v0.29.0)", "SMT solvers z3 / cvc5"}, deps...),
		"samples":                            samples,
		"functions_under_contract":           fnames,
		"families":                           fams,
		"by_backend":                         byBackend,
		"solver_time_s":                      round3(solverTime),
		"uncontracted_callees":               uniq(uncontracted),
		"dropped":                            uniq(dropped),
		"out_of_subset":                      outOfSubset,
		"known_findings":                     knownLines,
		"known_finding_obligations_excluded": knownObl,
		"undecided":                          undecided,
		"integers":                           "mathematical Int with range obligations (overflow / narrowing are obligations; wrap-around only where a contract opts in with `wraps`)",
	}
	ev := map[string]any{
		"property_id": prop,
		"tier":        tier,
		"seed":        seed,
		"level":       "proof",
		"coverage":    cov,
		"assumptions": assumptions,
		"wall_s":      round3(time.Since(t0).Seconds()),
		"violations":  violations,
	}
	os.MkdirAll(filepath.Join(verifDir, "evidence"), 0o755)
	var buf strings.Builder
	enc := json.NewEncoder(&buf)
	enc.SetEscapeHTML(false)
	enc.SetIndent("", " ")
	enc.Encode(ev)
	os.WriteFile(filepath.Join(verifDir, "evidence", prop+".json"), []byte(buf.String()), 0o644)
}

func round3(f float64) float64 { return float64(int(f*1000)) / 1000 }

func uniq(xs []string) []string {
	m := map[string]bool{}
	var out []string
	for _, x := range xs {
		if !m[x] {
			m[x] = true
			out = append(out, x)
		}
	}
	sort.Strings(out)
	return out
}

func cmdSelftest(args []string) {}

// batchAll runs the incremental batch pass, one solver process per function, in parallel.
func batchAll(funcs []*FuncResult, cfg SolverCfg) {
	sem := make(chan struct{}, cfg.Jobs)
	done := make(chan struct{}, len(funcs))
	for _, r := range funcs {
		sem <- struct{}{}
		go func(r *FuncResult) {
			defer func() { <-sem; done <- struct{}{} }()
			batchDischarge(r.Func, r.Obls, cfg)
		}(r)
	}
	for range funcs {
		<-done
	}
}

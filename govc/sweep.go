package main

// Zero-annotation safety sweep (a bug finder, not a proof): every function of the selected packages that has no
// contract and whose inputs can be rebuilt from a solver model (integers, booleans, strings, byte slices, structs of
// those, one pointer level) is executed symbolically with no precondition except "pointer arguments are not nil";
// only run-time safety obligations (index, slice, nil, division, nil map, explicit panic, type assertion) are
// generated. A refuted obligation is a *candidate*: it counts only when the generated replay test makes the real
// code panic on the solver's inputs. Callees are inlined or havocked as usual, so a candidate may be an artefact of
// the havoc - that is what the replay filters out.

import (
	"flag"
	"fmt"
	"go/ast"
	"go/types"
	"os"
	"path/filepath"
	"runtime"
	"sort"
	"strings"
)

func rebuildable(T types.Type, depth int) bool {
	switch u := under(T).(type) {
	case *types.Basic:
		return u.Info()&(types.IsInteger|types.IsBoolean|types.IsString) != 0
	case *types.Struct:
		for i := 0; i < u.NumFields(); i++ {
			if !rebuildable(u.Field(i).Type(), depth) {
				return false
			}
		}
		return true
	case *types.Pointer:
		if depth > 0 {
			return false
		}
		if _, ok := under(u.Elem()).(*types.Struct); !ok {
			return false
		}
		return rebuildable(u.Elem(), depth+1)
	case *types.Slice:
		b, ok := under(u.Elem()).(*types.Basic)
		return ok && b.Kind() == types.Uint8
	}
	return false
}

func cmdSweep(args []string) {
	fs := flag.NewFlagSet("sweep", flag.ExitOnError)
	pkg := fs.String("pkg", "", "package path suffix (required)")
	budget := fs.Int("budget", 40, "maximal number of replays")
	timeout := fs.Int("timeout", 5, "solver timeout (s)")
	only := fs.String("func", "", "function key suffix filter")
	fs.Parse(args)
	if *pkg == "" {
		fmt.Fprintln(os.Stderr, "sweep: -pkg required")
		os.Exit(2)
	}
	w := loadAll(nil)
	work, _ := os.MkdirTemp("", "govc-sweep")
	defer os.RemoveAll(work)
	cfg := SolverCfg{WorkDir: work, TimeoutS: *timeout, Seed: 0, Jobs: runtime.NumCPU()}
	replayBudget = *budget
	var results []*FuncResult
	nfun := 0
	for _, path := range sortedKeys(w.Pkgs) {
		if !strings.HasSuffix(path, *pkg) {
			continue
		}
		pi := w.Pkgs[path]
		for _, key := range sortedKeys(pi.Funcs) {
			fd := pi.Funcs[key]
			if fd.Body == nil || w.Contracts[path+"::"+key] != nil || strings.HasSuffix(w.Fset.Position(fd.Pos()).Filename, "_test.go") {
				continue
			}
			if *only != "" && !strings.HasSuffix(key, *only) {
				continue
			}
			fobj, _ := pi.P.TypesInfo.Defs[fd.Name].(*types.Func)
			if fobj == nil {
				continue
			}
			sig := fobj.Type().(*types.Signature)
			if sig.TypeParams() != nil || sig.RecvTypeParams() != nil {
				continue
			}
			ok := true
			c := &Contract{Pkg: path, Key: key, HasMod: true, Loops: map[int]*LoopSpec{}, Wraps: map[string]bool{}, NoSafety: map[string]bool{"overflow": true, "narrow": true, "pre": true}}
			c.Modifies = []ModEntry{{&SIdent{"heap"}, "heap"}, {&SIdent{"alloc"}, "alloc"}}
			nonNil := func(name string, T types.Type) {
				if _, isPtr := under(T).(*types.Pointer); isPtr && name != "" && name != "_" {
					e := &SBinary{Op: "!=", X: &SIdent{name}, Y: &SIdent{"nil"}}
					c.Requires = append(c.Requires, Clause{"nonnil_" + name, e, 0, e.String()})
				}
			}
			// heuristic: signed integer fields of struct inputs are indices / counts, assumed non-negative (internal
			// state with a negative offset is not an input anybody can produce)
			nonNegFields := func(name string, T types.Type) {
				if name == "" || name == "_" {
					return
				}
				ST := T
				if p, isPtr := under(T).(*types.Pointer); isPtr {
					ST = p.Elem()
				}
				st, isS := under(ST).(*types.Struct)
				if !isS {
					return
				}
				for i := 0; i < st.NumFields(); i++ {
					f := st.Field(i)
					if b, isB := under(f.Type()).(*types.Basic); isB && b.Info()&types.IsInteger != 0 && b.Info()&types.IsUnsigned == 0 {
						e := &SBinary{Op: "<=", X: &SInt{"0"}, Y: &SSel{X: &SIdent{name}, Name: f.Name()}}
						c.Requires = append(c.Requires, Clause{"nonneg_" + name + "_" + f.Name(), e, 0, e.String()})
					}
				}
			}
			if r := sig.Recv(); r != nil {
				if !rebuildable(r.Type(), 0) {
					ok = false
				}
				nonNil(r.Name(), r.Type())
				nonNegFields(r.Name(), r.Type())
			}
			for i := 0; i < sig.Params().Len() && ok; i++ {
				p := sig.Params().At(i)
				if named, isN := p.Type().(*types.Named); isN && named.Obj().Pkg() != nil && named.Obj().Pkg().Path() == "context" {
					continue
				}
				if !rebuildable(p.Type(), 0) || p.Name() == "" || p.Name() == "_" {
					ok = false
				}
				nonNil(p.Name(), p.Type())
				nonNegFields(p.Name(), p.Type())
			}
			if !ok {
				continue
			}
			nfun++
			w.Contracts[path+"::"+key] = c // replay looks the contract up by function
			r := w.verifyFunc(pi, fd, c, "sweep")
			var keep []*Obligation
			for _, o := range r.Obls {
				if panicKinds[o.Kind] {
					keep = append(keep, o)
				}
			}
			r.Obls = keep
			results = append(results, r)
		}
	}
	var all []*Obligation
	for _, r := range results {
		all = append(all, r.Obls...)
	}
	batchAll(results, cfg)
	dischargeAll(all, cfg)
	outDir := filepath.Join(verifDir, "work", "sweep")
	os.MkdirAll(outDir, 0o755)
	nref, nrep := 0, 0
	seenFam := map[string]bool{}
	var lines []string
	for _, r := range results {
		for _, o := range r.Obls {
			if o.Status != "refuted" || seenFam[o.Family] {
				continue
			}
			seenFam[o.Family] = true
			nref++
			rp := writeReplay(w, outDir, "sweep", o)
			if rp.Outcome == "reproduced" {
				nrep++
				lines = append(lines, fmt.Sprintf("REPRODUCED %s at %s: %s  inputs=%v  replay=%s", o.ID, o.Pos, o.Text, rp.Inputs, rp.Path))
			} else {
				lines = append(lines, fmt.Sprintf("candidate  %s at %s: %s  (%s)", o.ID, o.Pos, o.Text, rp.Outcome))
			}
		}
	}
	sort.Strings(lines)
	for _, l := range lines {
		if len(l) > 600 {
			l = l[:600]
		}
		fmt.Println(l)
	}
	fmt.Printf("sweep %s: %d functions, %d safety obligations, %d refuted families, %d reproduced on the real code\n", *pkg, nfun, len(all), nref, nrep)
	_ = ast.NewIdent
}

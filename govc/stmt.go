package main

import (
	"fmt"
	"go/ast"
	"go/token"
	"go/types"
	"regexp"
	"sort"
	"strconv"
	"strings"
)

type outKind int

const (
	oNormal outKind = iota
	oReturn
	oBreak
	oContinue
	oFallthrough
)

type Outcome struct {
	kind  outKind
	st    *State
	label string
	rets  []*Value
	pos   token.Pos
}

type deferred struct {
	call *ast.CallExpr
	args []*Value
	info *types.Info
	pkg  *PkgInfo
}

func (vc *VC) pathBudget(n ast.Node) {
	vc.paths++
	if vc.paths > vc.maxPaths {
		vc.unsupported(n, "path budget exceeded (%d)", vc.maxPaths)
	}
}

func normals(outs []Outcome) (ns []*State, rest []Outcome) {
	for _, o := range outs {
		if o.kind == oNormal {
			ns = append(ns, o.st)
		} else {
			rest = append(rest, o)
		}
	}
	return
}

func (vc *VC) execBlock(st *State, stmts []ast.Stmt) []Outcome {
	cur := []*State{st}
	var rest []Outcome
	for _, s := range stmts {
		var next []*State
		for _, c := range cur {
			outs := vc.exec(c, s)
			ns, r := normals(outs)
			next = append(next, ns...)
			rest = append(rest, r...)
		}
		cur = next
		if len(cur) == 0 {
			break
		}
	}
	for _, c := range cur {
		rest = append(rest, Outcome{kind: oNormal, st: c})
	}
	return rest
}

// mergeNormals merges the normal outcomes (all derived from a state whose pc had length n).
func (vc *VC) mergeNormals(n int, outs []Outcome) []Outcome {
	ns, rest := normals(outs)
	if len(ns) <= 1 {
		return outs
	}
	// paths that differ in the heap are kept apart: an `ite` over heap arrays defeats quantifier triggers
	for _, s := range ns[1:] {
		if s.alloc != ns[0].alloc || s.epoch != ns[0].epoch {
			return outs
		}
		for c, t := range s.heap {
			if t0, ok := ns[0].heap[c]; ok && t0 != t {
				return outs
			} else if !ok && t != vc.initialSym(s, c) {
				return outs
			}
		}
		for c, t0 := range ns[0].heap {
			if _, ok := s.heap[c]; !ok && t0 != vc.initialSym(ns[0], c) {
				return outs
			}
		}
	}
	m := vc.mergeStates(n, ns)
	return append(rest, Outcome{kind: oNormal, st: m})
}

func (vc *VC) mergeStates(n int, ss []*State) *State {
	m := ss[0].clone()
	m.pc = append([]string(nil), ss[0].pc[:n]...)
	m.pcG = append([]bool(nil), ss[0].pcG[:n]...)
	conds := make([]string, len(ss))
	for i, s := range ss {
		var guards, facts []string
		for j := n; j < len(s.pc); j++ {
			if s.pcG[j] {
				guards = append(guards, s.pc[j])
			} else {
				facts = append(facts, s.pc[j])
			}
		}
		b := vc.fresh("br", "Bool")
		m.assume(smtEq(b, smtAnd(guards...)))
		for _, f := range facts {
			m.assume(smtImp(b, f))
		}
		conds[i] = b
	}
	m.assume(smtOr(conds...))
	// env
	objs := map[types.Object]bool{}
	for _, s := range ss {
		for o := range s.env {
			objs[o] = true
		}
	}
	for o := range objs {
		same := true
		missing := false
		for _, s := range ss {
			if s.env[o] == nil {
				missing = true
				break
			}
			if s.env[o] != ss[0].env[o] {
				same = false
			}
		}
		if missing {
			delete(m.env, o)
			continue
		}
		if same {
			continue
		}
		v := ss[len(ss)-1].env[o]
		for i := len(ss) - 2; i >= 0; i-- {
			v = vc.iteValue(conds[i], ss[i].env[o], v)
		}
		m.env[o] = vc.bindValue(m, o.Name(), v)
	}
	// heap
	comps := map[string]bool{}
	for _, s := range ss {
		for c := range s.heap {
			comps[c] = true
		}
	}
	for c := range comps {
		same := true
		for _, s := range ss {
			if _, ok := s.heap[c]; !ok {
				// not yet touched in this branch: its value is the epoch-initial symbol
				vc.heapGet(s, c, vc.compSort[c])
			}
			if s.heap[c] != ss[0].heap[c] {
				same = false
			}
		}
		if same {
			m.heap[c] = ss[0].heap[c]
			continue
		}
		t := ss[len(ss)-1].heap[c]
		for i := len(ss) - 2; i >= 0; i-- {
			t = smtIte(conds[i], ss[i].heap[c], t)
		}
		m.heap[c] = vc.bindTerm(m, "Hm_"+c, vc.compSort[c], t)
	}
	// alloc
	sameA := true
	for _, s := range ss {
		if s.alloc != ss[0].alloc {
			sameA = false
		}
	}
	if !sameA {
		t := ss[len(ss)-1].alloc
		for i := len(ss) - 2; i >= 0; i-- {
			t = smtIte(conds[i], ss[i].alloc, t)
		}
		a := vc.fresh("Alloc", "(Array Int Bool)")
		m.assume(smtEq(a, t))
		m.alloc = a
	}
	// epoch: if branches differ the merged state is conservative (latest epoch wins is unsound); require equal
	for _, s := range ss {
		if s.epoch != ss[0].epoch {
			// force all components to be explicit: already done above via heapGet; pick max epoch
			if s.epoch > m.epoch {
				m.epoch = s.epoch
			}
		}
	}
	for _, s := range ss[1:] {
		for comp, ws := range s.writes {
			for _, w := range ws {
				m.logWrite(comp, w)
			}
		}
	}
	// deferred calls: keep only if identical
	for _, s := range ss {
		if len(s.defers) != len(ss[0].defers) {
			vc.unsupported(nil, "conditional defer")
		}
	}
	// ghost
	for k := range m.ghost {
		same := true
		for _, s := range ss {
			if s.ghost[k] != ss[0].ghost[k] {
				same = false
			}
		}
		if !same {
			t := ss[len(ss)-1].ghost[k]
			for i := len(ss) - 2; i >= 0; i-- {
				t = smtIte(conds[i], ss[i].ghost[k], t)
			}
			m.ghost[k] = t
		}
	}
	return m
}

func (vc *VC) bindValue(st *State, hint string, v *Value) *Value {
	switch v.K {
	case VInt:
		if len(v.Term) > 200 {
			n := *v
			n.Term = vc.fresh(hint, "Int")
			st.assume(smtEq(n.Term, v.Term))
			return &n
		}
	case VBool:
		if len(v.Term) > 200 {
			n := *v
			n.Term = vc.fresh(hint, "Bool")
			st.assume(smtEq(n.Term, v.Term))
			return &n
		}
	case VSlice:
		n := *v
		n.Arr = vc.bindTerm(st, hint+"_arr", "Int", v.Arr)
		n.Off = vc.bindTerm(st, hint+"_off", "Int", v.Off)
		n.Len = vc.bindTerm(st, hint+"_len", "Int", v.Len)
		n.Cap = vc.bindTerm(st, hint+"_cap", "Int", v.Cap)
		return &n
	case VStruct:
		n := &Value{K: VStruct, T: v.T, Fields: map[string]*Value{}, FOrder: v.FOrder}
		for _, f := range v.FOrder {
			n.Fields[f] = vc.bindValue(st, hint+"_"+f, v.Fields[f])
		}
		return n
	}
	return v
}

// ---------------------------------------------------------------- statements

func (vc *VC) exec(st *State, s ast.Stmt) []Outcome {
	switch x := s.(type) {
	case nil:
		return []Outcome{{kind: oNormal, st: st}}
	case *ast.BlockStmt:
		return vc.execBlock(st, x.List)
	case *ast.ExprStmt:
		if call, ok := ast.Unparen(x.X).(*ast.CallExpr); ok {
			if id, ok := call.Fun.(*ast.Ident); ok && id.Name == "panic" {
				if _, isB := vc.curInfo.Uses[id].(*types.Builtin); isB {
					for _, a := range call.Args {
						vc.evalExpr(st, a)
					}
					vc.safety(st, "panic", x, "false")
					return nil
				}
			}
			vc.evalCall(st, call)
			return []Outcome{{kind: oNormal, st: st}}
		}
		vc.evalExpr(st, x.X)
		return []Outcome{{kind: oNormal, st: st}}
	case *ast.AssignStmt:
		vc.execAssign(st, x)
		return []Outcome{{kind: oNormal, st: st}}
	case *ast.IncDecStmt:
		l := vc.evalLoc(st, x.X)
		v := vc.load(st, l)
		op := "+"
		if x.Tok == token.DEC {
			op = "-"
		}
		T := vc.typeOf(x.X)
		if id, ok := x.X.(*ast.Ident); ok && vc.wraps[id.Name] {
			vc.wrapMode++
			defer func() { vc.wrapMode-- }()
		}
		r := vc.arithResult(st, x, intV(app(op, v.Term, "1"), T), T)
		vc.store(st, l, r)
		return []Outcome{{kind: oNormal, st: st}}
	case *ast.DeclStmt:
		gd := x.Decl.(*ast.GenDecl)
		if gd.Tok == token.VAR {
			for _, sp := range gd.Specs {
				vs := sp.(*ast.ValueSpec)
				if len(vs.Values) == 1 && len(vs.Names) > 1 {
					rs := vc.evalMulti(st, vs.Values[0], len(vs.Names))
					for i, n := range vs.Names {
						vc.declareLocal(st, n, rs[i])
					}
					continue
				}
				for i, n := range vs.Names {
					obj := vc.curInfo.Defs[n]
					var v *Value
					if i < len(vs.Values) {
						v = vc.evalExprTo(st, vs.Values[i], obj.Type())
					} else if obj != nil {
						v = vc.zeroValue(obj.Type())
					}
					vc.declareLocal(st, n, v)
				}
			}
		}
		return []Outcome{{kind: oNormal, st: st}}
	case *ast.ReturnStmt:
		return vc.execReturn(st, x)
	case *ast.IfStmt:
		return vc.execIf(st, x)
	case *ast.ForStmt:
		return vc.execFor(st, x, "")
	case *ast.RangeStmt:
		return vc.execRange(st, x, "")
	case *ast.LabeledStmt:
		switch y := x.Stmt.(type) {
		case *ast.ForStmt:
			return vc.execFor(st, y, x.Label.Name)
		case *ast.RangeStmt:
			return vc.execRange(st, y, x.Label.Name)
		case *ast.SwitchStmt:
			return vc.execSwitch(st, y, x.Label.Name)
		}
		vc.unsupported(x, "labelled statement")
	case *ast.BranchStmt:
		label := ""
		if x.Label != nil {
			label = x.Label.Name
		}
		switch x.Tok {
		case token.BREAK:
			return []Outcome{{kind: oBreak, st: st, label: label}}
		case token.CONTINUE:
			return []Outcome{{kind: oContinue, st: st, label: label}}
		case token.FALLTHROUGH:
			return []Outcome{{kind: oFallthrough, st: st}}
		}
		vc.unsupported(x, "goto")
	case *ast.SwitchStmt:
		return vc.execSwitch(st, x, "")
	case *ast.TypeSwitchStmt:
		return vc.execTypeSwitch(st, x)
	case *ast.DeferStmt:
		d := deferred{call: x.Call, info: vc.curInfo, pkg: vc.curPkg}
		if _, isLit := x.Call.Fun.(*ast.FuncLit); !isLit {
			for _, a := range x.Call.Args {
				d.args = append(d.args, vc.evalExpr(st, a))
			}
			// method receiver is evaluated at defer time too; we re-evaluate at run time (receivers are
			// not reassigned between defer and return in the verified subset)
		}
		st.defers = append(append([]deferred(nil), st.defers...), d)
		return []Outcome{{kind: oNormal, st: st}}
	case *ast.GoStmt:
		for _, a := range x.Call.Args {
			vc.evalExpr(st, a)
		}
		vc.dropped["go statement at "+vc.w.pos(x.Pos())+" (goroutine body not modelled)"] = true
		return []Outcome{{kind: oNormal, st: st}}
	case *ast.EmptyStmt:
		return []Outcome{{kind: oNormal, st: st}}
	case *ast.SendStmt:
		vc.evalExpr(st, x.Chan)
		vc.evalExpr(st, x.Value)
		vc.dropped["channel send at "+vc.w.pos(x.Pos())] = true
		return []Outcome{{kind: oNormal, st: st}}
	case *ast.SelectStmt:
		// sequential model of select: any one of the cases may be taken (sends have no effect here, a receive
		// yields an arbitrary value); an unlabelled break leaves the select
		vc.dropped["select at "+vc.w.pos(x.Pos())+" (any case may be taken)"] = true
		var outs []Outcome
		for _, cc := range x.Body.List {
			cl := cc.(*ast.CommClause)
			cs := st.clone()
			var pre []Outcome
			if cl.Comm != nil {
				pre = vc.exec(cs, cl.Comm)
			} else {
				pre = []Outcome{{kind: oNormal, st: cs}}
			}
			for _, p := range pre {
				if p.kind != oNormal {
					outs = append(outs, p)
					continue
				}
				for _, o := range vc.execBlock(p.st, cl.Body) {
					if o.kind == oBreak && o.label == "" {
						o.kind = oNormal
					}
					outs = append(outs, o)
				}
			}
		}
		if len(outs) == 0 {
			outs = []Outcome{{kind: oNormal, st: st}}
		}
		return outs
	}
	vc.unsupported(s, "statement %T", s)
	return nil
}

func (vc *VC) declareLocal(st *State, id *ast.Ident, v *Value) {
	if id.Name == "_" {
		return
	}
	obj := vc.curInfo.Defs[id]
	if obj == nil {
		obj = vc.curInfo.Uses[id] // redeclaration in :=
	}
	if obj == nil {
		return
	}
	vr, _ := obj.(*types.Var)
	if vr != nil && vc.boxed[vr] && vc.curInfo.Defs[id] != nil {
		ref := vc.allocRef(st, "cell_"+id.Name)
		st.env[obj] = intV(ref, nil)
		vc.store(st, vc.boxLoc(vr, ref), v)
		return
	}
	if vr != nil && vc.boxed[vr] {
		vc.store(st, vc.boxLoc(vr, st.env[obj].Term), v)
		return
	}
	st.env[obj] = v
}

func (vc *VC) evalMulti(st *State, e ast.Expr, n int) []*Value {
	switch x := ast.Unparen(e).(type) {
	case *ast.CallExpr:
		rs := vc.evalCall(st, x)
		if len(rs) != n {
			vc.unsupported(e, "call returns %d values, %d expected", len(rs), n)
		}
		return rs
	case *ast.IndexExpr:
		if _, ok := under(vc.typeOf(x.X)).(*types.Map); ok && n == 2 {
			v, in := vc.mapLookup(st, x)
			return []*Value{v, boolV(in)}
		}
	case *ast.TypeAssertExpr:
		if n == 2 {
			v, ok := vc.evalTypeAssert(st, x)
			return []*Value{v, boolV(ok)}
		}
	}
	vc.unsupported(e, "multi-value expression %T", e)
	return nil
}

func (vc *VC) execAssign(st *State, x *ast.AssignStmt) {
	// wrap-around opt-in by assigned variable name
	for _, l := range x.Lhs {
		if id, ok := l.(*ast.Ident); ok && vc.wraps[id.Name] {
			vc.wrapMode++
			defer func() { vc.wrapMode-- }()
			break
		}
	}
	if x.Tok != token.ASSIGN && x.Tok != token.DEFINE {
		// op-assign
		opTok := map[token.Token]token.Token{token.ADD_ASSIGN: token.ADD, token.SUB_ASSIGN: token.SUB, token.MUL_ASSIGN: token.MUL,
			token.QUO_ASSIGN: token.QUO, token.REM_ASSIGN: token.REM, token.AND_ASSIGN: token.AND, token.OR_ASSIGN: token.OR,
			token.XOR_ASSIGN: token.XOR, token.SHL_ASSIGN: token.SHL, token.SHR_ASSIGN: token.SHR, token.AND_NOT_ASSIGN: token.AND_NOT}[x.Tok]
		be := &ast.BinaryExpr{X: x.Lhs[0], Op: opTok, Y: x.Rhs[0], OpPos: x.TokPos}
		// type info for the synthetic node
		vc.curInfo.Types[be] = types.TypeAndValue{Type: vc.typeOf(x.Lhs[0])}
		v := vc.evalBinary(st, be)
		delete(vc.curInfo.Types, be)
		vc.assignTo(st, x.Lhs[0], v, false)
		return
	}
	var vals []*Value
	if len(x.Rhs) == 1 && len(x.Lhs) > 1 {
		vals = vc.evalMulti(st, x.Rhs[0], len(x.Lhs))
	} else {
		for i, r := range x.Rhs {
			var to types.Type
			if id, ok := x.Lhs[i].(*ast.Ident); !ok || id.Name != "_" {
				to = vc.typeOf(x.Lhs[i])
				if to == nil {
					if id, ok := x.Lhs[i].(*ast.Ident); ok {
						if o := vc.curInfo.Defs[id]; o != nil {
							to = o.Type()
						}
					}
				}
			}
			vals = append(vals, vc.evalExprTo(st, r, to))
		}
	}
	for i, l := range x.Lhs {
		vc.assignTo(st, l, vals[i], x.Tok == token.DEFINE)
	}
}

func (vc *VC) assignTo(st *State, l ast.Expr, v *Value, define bool) {
	if id, ok := l.(*ast.Ident); ok {
		if id.Name == "_" {
			return
		}
		if define {
			vc.declareLocal(st, id, v)
			return
		}
	}
	if ix, ok := ast.Unparen(l).(*ast.IndexExpr); ok {
		if mt, ok := under(vc.typeOf(ix.X)).(*types.Map); ok {
			m := vc.evalExpr(st, ix.X)
			k := vc.evalExpr(st, ix.Index)
			vc.safety(st, "nilmap", ix, smtNot(smtEq(m.Term, "0")))
			vc.mapSet(st, vc.typeOf(ix.X), mt, m.Term, vc.mapKeyTerm(ix, k), v)
			return
		}
	}
	loc := vc.evalLoc(st, l)
	if v.K == VInt || v.K == VBool {
		v = vc.convertTo(st, v, v.T, loc.T)
	}
	vc.store(st, loc, v)
}

func (vc *VC) execReturn(st *State, x *ast.ReturnStmt) []Outcome {
	var rets []*Value
	fr := vc.retStack[len(vc.retStack)-1]
	switch {
	case len(x.Results) == 0:
		for _, o := range fr.results {
			if o == nil {
				vc.unsupported(x, "bare return without named results")
			}
			rets = append(rets, vc.evalIdentObj(st, o))
		}
	case len(x.Results) == 1 && len(fr.types) > 1:
		rs := vc.evalMulti(st, x.Results[0], len(fr.types))
		for i, r := range rs {
			rets = append(rets, vc.convertTo(st, r, r.T, fr.types[i]))
		}
	default:
		for i, r := range x.Results {
			rets = append(rets, vc.evalExprTo(st, r, fr.types[i]))
		}
	}
	// named results are assigned by return
	for i, o := range fr.results {
		if o != nil && i < len(rets) {
			if vr, _ := o.(*types.Var); vr != nil && vc.boxed[vr] {
				vc.store(st, vc.boxLoc(vr, st.env[o].Term), rets[i])
			} else {
				st.env[o] = rets[i]
			}
		}
	}
	return []Outcome{{kind: oReturn, st: st, rets: rets, pos: x.Pos()}}
}

func (vc *VC) evalIdentObj(st *State, o types.Object) *Value {
	if vr, _ := o.(*types.Var); vr != nil && vc.boxed[vr] {
		return vc.load(st, vc.boxLoc(vr, st.env[o].Term))
	}
	v := st.env[o]
	if v == nil {
		v = vc.zeroValue(o.Type())
	}
	return v
}

func (vc *VC) execIf(st *State, x *ast.IfStmt) []Outcome {
	if x.Init != nil {
		outs := vc.exec(st, x.Init)
		ns, _ := normals(outs)
		if len(ns) != 1 {
			vc.unsupported(x, "if-init with control flow")
		}
		st = ns[0]
	}
	n := len(st.pc)
	c := vc.evalCond(st, x.Cond)
	n2 := len(st.pc)
	_ = n
	var outs []Outcome
	vc.pathBudget(x)
	thenSt := st.clone()
	thenSt.assumeGuard(c)
	outs = append(outs, vc.exec(thenSt, x.Body)...)
	elseSt := st.clone()
	elseSt.assumeGuard(smtNot(c))
	if x.Else != nil {
		outs = append(outs, vc.exec(elseSt, x.Else)...)
	} else {
		outs = append(outs, Outcome{kind: oNormal, st: elseSt})
	}
	return vc.mergeNormals(n2, outs)
}

// evalCond evaluates a boolean condition; its safety obligations are emitted on st.
func (vc *VC) evalCond(st *State, e ast.Expr) string {
	v := vc.evalExpr(st, e)
	if v.K != VBool {
		vc.unsupported(e, "non-boolean condition")
	}
	return v.Term
}

func (vc *VC) execSwitch(st *State, x *ast.SwitchStmt, label string) []Outcome {
	if x.Init != nil {
		outs := vc.exec(st, x.Init)
		ns, _ := normals(outs)
		if len(ns) != 1 {
			vc.unsupported(x, "switch-init with control flow")
		}
		st = ns[0]
	}
	var tag *Value
	if x.Tag != nil {
		tag = vc.evalExpr(st, x.Tag)
	}
	n := len(st.pc)
	var outs []Outcome
	var prev []string // negations of earlier clause conditions
	clauses := x.Body.List
	conds := make([]string, len(clauses))
	defIdx := -1
	for i, cl := range clauses {
		cc := cl.(*ast.CaseClause)
		if cc.List == nil {
			defIdx = i
			continue
		}
		var alts []string
		for _, e := range cc.List {
			v := vc.evalExpr(st, e)
			if tag != nil {
				alts = append(alts, vc.equalValues(tag, v))
			} else {
				alts = append(alts, v.Term)
			}
		}
		conds[i] = smtOr(alts...)
	}
	var fall []*State
	for i, cl := range clauses {
		cc := cl.(*ast.CaseClause)
		var entry []*State
		if i != defIdx {
			s := st.clone()
			for _, p := range prev {
				s.assumeGuard(p)
			}
			s.assumeGuard(conds[i])
			prev = append(prev, smtNot(conds[i]))
			entry = append(entry, s)
		} else {
			s := st.clone()
			for j := range clauses {
				if j != defIdx {
					s.assumeGuard(smtNot(conds[j]))
				}
			}
			entry = append(entry, s)
		}
		entry = append(entry, fall...)
		fall = nil
		for _, es := range entry {
			vc.pathBudget(cc)
			for _, o := range vc.execBlock(es, cc.Body) {
				switch {
				case o.kind == oFallthrough:
					fall = append(fall, o.st)
				case o.kind == oBreak && (o.label == "" || o.label == label):
					outs = append(outs, Outcome{kind: oNormal, st: o.st})
				default:
					outs = append(outs, o)
				}
			}
		}
	}
	if defIdx < 0 {
		s := st.clone()
		for j := range clauses {
			s.assumeGuard(smtNot(conds[j]))
		}
		outs = append(outs, Outcome{kind: oNormal, st: s})
	}
	return vc.mergeNormals(n, outs)
}

func (vc *VC) execTypeSwitch(st *State, x *ast.TypeSwitchStmt) []Outcome {
	if x.Init != nil {
		outs := vc.exec(st, x.Init)
		ns, _ := normals(outs)
		st = ns[0]
	}
	var bindName *ast.Ident
	var subject ast.Expr
	switch a := x.Assign.(type) {
	case *ast.AssignStmt:
		bindName = a.Lhs[0].(*ast.Ident)
		subject = a.Rhs[0].(*ast.TypeAssertExpr).X
	case *ast.ExprStmt:
		subject = a.X.(*ast.TypeAssertExpr).X
	}
	v := vc.evalExpr(st, subject)
	n := len(st.pc)
	var outs []Outcome
	var allConds []string
	defIdx := -1
	type clause struct {
		cc   *ast.CaseClause
		cond string
	}
	var cls []clause
	for i, cl := range x.Body.List {
		cc := cl.(*ast.CaseClause)
		if cc.List == nil {
			defIdx = i
			cls = append(cls, clause{cc, ""})
			continue
		}
		var alts []string
		for _, te := range cc.List {
			T := vc.typeOf(te)
			if T == nil || T == types.Typ[types.UntypedNil] {
				alts = append(alts, smtEq(v.Term, "0"))
				continue
			}
			if isInterface(T) {
				b := vc.fresh("implements", "Bool")
				st.assume(smtImp(b, smtNot(smtEq(v.Term, "0"))))
				alts = append(alts, b)
				continue
			}
			alts = append(alts, smtAnd(smtNot(smtEq(v.Term, "0")), smtEq(app("typeof", v.Term), vc.typeTag(T))))
		}
		c := smtOr(alts...)
		cls = append(cls, clause{cc, c})
		allConds = append(allConds, c)
	}
	var prev []string
	for i, c := range cls {
		s := st.clone()
		if i == defIdx {
			for _, ac := range allConds {
				s.assumeGuard(smtNot(ac))
			}
		} else {
			for _, p := range prev {
				s.assumeGuard(p)
			}
			s.assumeGuard(c.cond)
			prev = append(prev, smtNot(c.cond))
		}
		if bindName != nil {
			if obj := vc.curInfo.Implicits[c.cc]; obj != nil {
				if len(c.cc.List) == 1 && !isInterface(obj.Type()) {
					switch shapeOf(obj.Type()) {
					case shInt:
						s.env[obj] = intV(app("ptrof", v.Term), obj.Type())
						vc.assumeTyped(s, s.env[obj])
					case shBool:
						s.env[obj] = &Value{K: VBool, T: obj.Type(), Term: smtEq(app("ptrof", v.Term), "1")}
					default:
						s.env[obj] = vc.freshValue(s, bindName.Name, obj.Type())
					}
				} else {
					s.env[obj] = intV(v.Term, obj.Type())
				}
			}
		}
		vc.pathBudget(c.cc)
		for _, o := range vc.execBlock(s, c.cc.Body) {
			if o.kind == oBreak && o.label == "" {
				outs = append(outs, Outcome{kind: oNormal, st: o.st})
			} else {
				outs = append(outs, o)
			}
		}
	}
	if defIdx < 0 {
		s := st.clone()
		for _, ac := range allConds {
			s.assumeGuard(smtNot(ac))
		}
		outs = append(outs, Outcome{kind: oNormal, st: s})
	}
	return vc.mergeNormals(n, outs)
}

// ---------------------------------------------------------------- loops

type modSet struct {
	leaves map[types.Object]map[string]bool // struct variables: which leaves changed
	env    map[types.Object]bool
	comps  map[string]bool
	all    bool
	alloc  bool
}

// dryExec executes run on a clone of st with all obligations discarded.
func (vc *VC) dryExec(st *State, run func(s *State) []Outcome) []Outcome {
	vc.dry++
	savedObls := len(vc.obls)
	savedCounts := map[string]int{}
	for k, v := range vc.oblCount {
		savedCounts[k] = v
	}
	savedLoop := vc.loopOrd
	savedPaths := vc.paths
	c := st.clone()
	c.writes = nil
	outs := run(c)
	vc.obls = vc.obls[:savedObls]
	vc.oblCount = savedCounts
	vc.loopOrd = savedLoop
	vc.paths = savedPaths
	vc.dry--
	return outs
}

// dryRun executes body once on a clone (obligations discarded) to learn what it may modify.
func (vc *VC) dryRun(st *State, run func(s *State) []Outcome) modSet {
	ms := modSet{env: map[types.Object]bool{}, comps: map[string]bool{}, leaves: map[types.Object]map[string]bool{}}
	outs := vc.dryExec(st, run)
	for _, o := range outs {
		if o.st.epoch != st.epoch {
			ms.all = true
		}
		for obj, v := range o.st.env {
			if ov, ok := st.env[obj]; ok && ov != v {
				if !sameValue(ov, v) {
					ms.env[obj] = true
					if ov.K == VStruct && v.K == VStruct {
						if ms.leaves[obj] == nil {
							ms.leaves[obj] = map[string]bool{}
						}
						changedLeaves(ov, v, "", ms.leaves[obj])
					}
				}
			}
		}
		for comp, t := range o.st.heap {
			if ot, ok := st.heap[comp]; !ok || ot != t {
				if !ok && t == vc.initialSym(o.st, comp) && o.st.epoch == st.epoch {
					continue // only read
				}
				ms.comps[comp] = true
			}
		}
		if o.st.alloc != st.alloc {
			ms.alloc = true
		}
	}
	return ms
}

var symSuffixRe = regexp.MustCompile(`_(\d+)$`)
var epochSuffixRe = regexp.MustCompile(`_e(\d+)$`)

// loopInvariantTerm: t mentions no symbol created after counter f1 / epoch e1.
func loopInvariantTerm(t string, f1 int, e1 int) bool {
	if t == "*" || strings.Contains(t, "!") {
		return false
	}
	syms := map[string]bool{}
	symbolsOf(t, syms)
	for s := range syms {
		if m := epochSuffixRe.FindStringSubmatch(s); m != nil {
			if n, _ := strconv.Atoi(m[1]); n > e1 {
				return false
			}
			continue
		}
		if m := symSuffixRe.FindStringSubmatch(s); m != nil {
			if n, _ := strconv.Atoi(m[1]); n > f1 {
				return false
			}
		}
	}
	return true
}

// loopFrame: for the heap components havocked at a loop head, assume that cells whose outer index is
// never written by the body keep their pre-loop value. The written indices are collected by executing the
// body once more from the havocked state; only indices that do not depend on loop-variant data are used.
func (vc *VC) loopFrame(pre, h *State, ms modSet, f1, e1 int, run func(s *State) []Outcome) map[string][]string {
	framed := map[string][]string{}
	if ms.all || len(ms.comps) == 0 {
		return framed
	}
	outs := vc.dryExec(h, run)
	writes := map[string]map[string]bool{}
	for _, o := range outs {
		for comp, ws := range o.st.writes {
			if writes[comp] == nil {
				writes[comp] = map[string]bool{}
			}
			for _, w := range ws {
				writes[comp][w] = true
			}
		}
	}
	for _, comp := range sortedKeys(ms.comps) {
		srt := vc.compSort[comp]
		if strings.Count(srt, "(Array") == 0 {
			continue
		}
		ok := true
		var idxs []string
		for w := range writes[comp] {
			if !loopInvariantTerm(w, f1, e1) {
				ok = false
				break
			}
			idxs = append(idxs, w)
		}
		if !ok {
			continue
		}
		sort.Strings(idxs)
		preT := vc.heapGet(pre, comp, srt)
		newT := h.heap[comp]
		var conds []string
		for _, ix := range idxs {
			conds = append(conds, smtNot(smtEq("a!f", ix)))
		}
		if strings.Count(srt, "(Array") == 2 {
			h.assume("(forall ((a!f Int) (i!f Int)) (! " + smtImp(smtAnd(conds...), "(= (select "+newT+" (pr a!f i!f)) (select "+preT+" (pr a!f i!f)))") + " :pattern ((select " + newT + " (pr a!f i!f))) :qid loopframe))")
		} else {
			h.assume("(forall ((a!f Int)) (! " + smtImp(smtAnd(conds...), "(= (select "+newT+" a!f) (select "+preT+" a!f))") + " :pattern ((select " + newT + " a!f)) :qid loopframe))")
		}
		framed[comp] = idxs
	}
	return framed
}

// changedLeaves records the paths of the leaves in which a and b differ.
func changedLeaves(a, b *Value, path string, out map[string]bool) {
	if a == nil || b == nil || a.K != b.K {
		out[path] = true
		return
	}
	if a.K == VStruct {
		for _, f := range a.FOrder {
			changedLeaves(a.Fields[f], b.Fields[f], path+"."+f, out)
		}
		return
	}
	if !sameValue(a, b) {
		out[path] = true
	}
}

// keepUnchangedLeaves: fresh where the leaf (or an enclosing path) changed, old elsewhere.
func keepUnchangedLeaves(old, fresh *Value, path string, changed map[string]bool) *Value {
	if changed[path] {
		return fresh
	}
	if old.K == VStruct && fresh.K == VStruct {
		n := &Value{K: VStruct, T: old.T, Fields: map[string]*Value{}, FOrder: old.FOrder}
		for _, f := range old.FOrder {
			n.Fields[f] = keepUnchangedLeaves(old.Fields[f], fresh.Fields[f], path+"."+f, changed)
		}
		return n
	}
	return old
}

func sameValue(a, b *Value) bool {
	if a.K != b.K {
		return false
	}
	switch a.K {
	case VInt, VBool:
		return a.Term == b.Term
	case VSlice:
		return a.Arr == b.Arr && a.Off == b.Off && a.Len == b.Len && a.Cap == b.Cap
	case VStruct:
		for _, f := range a.FOrder {
			if b.Fields[f] == nil || !sameValue(a.Fields[f], b.Fields[f]) {
				return false
			}
		}
		return true
	}
	return false
}

func (vc *VC) havocMods(st *State, ms modSet) {
	for obj := range ms.env {
		if old := st.env[obj]; old != nil {
			T := old.T
			if T == nil {
				T = obj.Type()
			}
			if vr, _ := obj.(*types.Var); vr != nil && vc.boxed[vr] {
				continue
			}
			nv := vc.freshValue(st, obj.Name(), T)
			nv.Fn = nil
			if old.K == VStruct && ms.leaves[obj] != nil {
				nv = keepUnchangedLeaves(old, nv, "", ms.leaves[obj])
			}
			st.env[obj] = nv
		}
	}
	if (ms.alloc || ms.all) && !ms.all {
		vc.havocAlloc(st)
	}
	if ms.all {
		vc.havocAllHeap(st)
		// havocAllHeap keeps ghost and closure-cell components: those the body changed (through a contract's modifies
		// clause, or by assignment) are arbitrary at the loop head as well
		for _, comp := range sortedKeys(ms.comps) {
			if strings.HasPrefix(comp, "ghost:") || strings.HasPrefix(comp, "local:") {
				n := vc.fresh("H_"+comp, vc.compSort[comp])
				st.heap[comp] = n
				vc.heapSymWF(n, comp, vc.compSort[comp], st.alloc)
			}
		}
	} else {
		for _, comp := range sortedKeys(ms.comps) {
			n := vc.fresh("H_"+comp, vc.compSort[comp])
			st.heap[comp] = n
			vc.heapSymWF(n, comp, vc.compSort[comp], st.alloc)
		}
	}
}

func (vc *VC) addAllocMono(st *State, old, nw string) {
	st.assume("(not (select " + nw + " 0))")
	st.assume("(forall ((r Int)) (! (=> (select " + old + " r) (select " + nw + " r)) :pattern ((select " + nw + " r))))")
}

// havocAllHeap forgets the whole program heap. Ghost components (state that only specifications change) are
// kept: they change only through the modifies clauses of contracts that name them.
func (vc *VC) havocAllHeap(st *State) {
	st.approx = true
	ghost := map[string]string{}
	for _, comp := range sortedKeys(vc.compSort) {
		if strings.HasPrefix(comp, "ghost:") || strings.HasPrefix(comp, "local:") || vc.immutableComp(comp) {
			ghost[comp] = vc.heapGet(st, comp, vc.compSort[comp])
		}
	}
	// backing arrays of local slices that have not escaped yet (see confined) keep their contents
	type keptRow struct{ comp, sort, arr, old string }
	var kept []keptRow
	for obj, v := range st.env {
		lv, ok := obj.(*types.Var)
		if !ok || v == nil || v.K != VSlice || !vc.confined(lv) {
			continue
		}
		sl, ok := under(lv.Type()).(*types.Slice)
		if !ok {
			continue
		}
		arr := v.Arr
		vc.assumptions["local slice "+lv.Name()+" has not escaped at "+vc.w.pos(vc.curCall.Pos())+": its elements survive the callee's heap effects (syntactic escape check)"] = true
		vc.leafComps(elemCompPrefix(sl.Elem()), sl.Elem(), 2, func(comp, sort string) {
			kept = append(kept, keptRow{comp, sort, arr, vc.heapGet(st, comp, sort)})
		})
	}
	sort.Slice(kept, func(i, j int) bool { return kept[i].comp+kept[i].arr < kept[j].comp+kept[j].arr })
	defer func() {
		for c, t := range ghost {
			st.heap[c] = t
		}
		for _, k := range kept {
			nh := vc.heapGet(st, k.comp, k.sort)
			st.assume(fmt.Sprintf("(forall ((i!k Int)) (! (= (select %s (pr %s i!k)) (select %s (pr %s i!k))) :pattern ((select %s (pr %s i!k))) :pattern ((select %s (pr %s i!k))) :qid keptrow))", nh, k.arr, k.old, k.arr, nh, k.arr, k.old, k.arr))
		}
	}()
	vc.havocAlloc(st)
	vc.nepoch++
	st.epoch = vc.nepoch
	vc.epochAlloc[st.epoch] = st.alloc
	st.logWrite("*heap", "*")
	for k := range st.heap {
		if strings.HasPrefix(k, "const:") {
			continue
		}
		delete(st.heap, k)
	}
}

// loopSpec: loops are numbered by their position in the source of the function under verification.
func (vc *VC) loopSpec(n ast.Node) (*LoopSpec, int) {
	ord, ok := vc.loopIndex[n]
	if !ok {
		vc.loopOrd++
		return nil, 1000 + vc.loopOrd
	}
	if vc.contract == nil {
		return nil, ord
	}
	return vc.contract.Loops[ord], ord
}

type loopCtx struct {
	spec  *LoopSpec
	ord   int
	pos   token.Pos
	label string
}

func (vc *VC) execFor(st *State, x *ast.ForStmt, label string) []Outcome {
	if x.Init != nil {
		outs := vc.exec(st, x.Init)
		ns, _ := normals(outs)
		if len(ns) != 1 {
			vc.unsupported(x, "for-init with control flow")
		}
		st = ns[0]
	}
	spec, ord := vc.loopSpec(x)
	lc := loopCtx{spec, ord, x.Pos(), label}
	return vc.loopCommon(st, lc, nil,
		func(s *State) string {
			if x.Cond == nil {
				return "true"
			}
			return vc.evalCond(s, x.Cond)
		},
		func(s *State) []Outcome { return vc.exec(s, x.Body) },
		func(s *State) {
			if x.Post != nil {
				vc.exec(s, x.Post)
			}
		}, nil)
}

// loopCommon implements the invariant-based loop rule.
func (vc *VC) loopCommon(st *State, lc loopCtx, atHead func(s *State), cond func(s *State) string,
	body func(s *State) []Outcome, post func(s *State), implicitInv func(s *State) string) []Outcome {

	if vc.inlineDepth > 0 && lc.ord >= 1000 {
		vc.unsupported(nil, "loop in inlined callee (needs a contract)")
	}
	// 1. what does an iteration modify?
	savedOrd := vc.loopOrd
	iteration := func(s *State) []Outcome {
		if atHead != nil {
			atHead(s)
		}
		s.assume(cond(s))
		outs := body(s)
		var res []Outcome
		for _, o := range outs {
			if o.kind == oNormal || o.kind == oContinue {
				post(o.st)
			}
			res = append(res, o)
		}
		return res
	}
	ms := vc.dryRun(st, iteration)
	vc.loopOrd = savedOrd
	// 2. invariants hold on entry
	if atHead != nil {
		atHead(st)
	}
	if implicitInv != nil {
		// implicit invariants are established by construction (not obligations), but checked anyway
		vc.oblige(st, "inv-init", fmt.Sprintf("loop%d.implicit", lc.ord), "implicit range invariant", lc.pos, implicitInv(st))
	}
	if lc.spec != nil {
		for _, inv := range lc.spec.Invariants {
			t := vc.evalSpecBool(st, inv.Expr)
			vc.oblige(st, "inv-init", fmt.Sprintf("loop%d.%s", lc.ord, inv.Label), inv.Text, lc.pos, t)
		}
	}
	// the function's frame is an implicit invariant of every loop: cells of objects allocated at function entry
	// and not named by `modifies` still have their entry value (holds before the loop by the code so far)
	useFrameInv := vc.contract != nil && vc.contract.HasMod && !ms.all && st.epoch == 0
	// 3. arbitrary iteration
	h := st.clone()
	f1, e1 := vc.nfresh, vc.nepoch
	vc.havocMods(h, ms)
	h.approx = true
	framed := vc.loopFrame(st, h, ms, f1, e1, iteration)
	vc.loopOrd = savedOrd
	// what the loop writes is also a write of the enclosing code
	for comp := range ms.comps {
		if idxs, ok := framed[comp]; ok {
			for _, ix := range idxs {
				h.logWrite(comp, ix)
			}
		} else {
			h.logWrite(comp, "*")
		}
	}
	if atHead != nil {
		atHead(h)
	}
	if implicitInv != nil {
		h.assume(implicitInv(h))
	}
	if useFrameInv {
		if whole, goals := vc.frameGoals(h, ms.comps); !whole {
			for _, comp := range sortedKeys(goals) {
				// established on entry?
				_, g0 := vc.frameGoals(st, map[string]bool{comp: true})
				if g, ok := g0[comp]; ok {
					vc.oblige(st, "inv-init", fmt.Sprintf("loop%d.frame.%s", lc.ord, mangle(comp)), "frame of "+comp+" holds at loop entry", lc.pos, g)
				}
				h.assume(goals[comp])
			}
		}
	}
	var variant0 string
	if lc.spec != nil {
		for _, inv := range lc.spec.Invariants {
			h.assume(vc.evalSpecBool(h, inv.Expr))
		}
		if lc.spec.Decreases != nil {
			variant0 = vc.evalSpecInt(h, lc.spec.Decreases)
		}
	}
	vc.vacuity(h, fmt.Sprintf("loop%d.head", lc.ord), lc.pos)
	c := cond(h)
	var outs []Outcome
	exitSt := h.clone()
	exitSt.assumeGuard(smtNot(c))
	outs = append(outs, Outcome{kind: oNormal, st: exitSt})
	bodySt := h.clone()
	bodySt.assumeGuard(c)
	vc.pathBudget(nil)
	for _, o := range body(bodySt) {
		switch {
		case o.kind == oNormal || (o.kind == oContinue && (o.label == "" || o.label == lc.label)):
			post(o.st)
			s := o.st
			if vc.oblCount[vc.fname+"#vacuity."+fmt.Sprintf("loop%d.bodyend", lc.ord)] < 8 {
				vc.vacuity(s, fmt.Sprintf("loop%d.bodyend", lc.ord), lc.pos)
			}
			if atHead != nil {
				// the next iteration's head bindings are checked against the invariant after re-binding
				atHead(s)
			}
			if implicitInv != nil {
				vc.oblige(s, "inv-keep", fmt.Sprintf("loop%d.implicit", lc.ord), "implicit range invariant", lc.pos, implicitInv(s))
			}
			if useFrameInv && s.epoch == 0 {
				if whole, goals := vc.frameGoals(s, ms.comps); !whole {
					for _, comp := range sortedKeys(goals) {
						vc.oblige(s, "inv-keep", fmt.Sprintf("loop%d.frame.%s", lc.ord, mangle(comp)), "frame of "+comp+" is preserved by the loop body", lc.pos, goals[comp])
					}
				}
			}
			if lc.spec != nil {
				for _, inv := range lc.spec.Invariants {
					t := vc.evalSpecBool(s, inv.Expr)
					vc.oblige(s, "inv-keep", fmt.Sprintf("loop%d.%s", lc.ord, inv.Label), inv.Text, lc.pos, t)
				}
				if lc.spec.Decreases != nil {
					v1 := vc.evalSpecInt(s, lc.spec.Decreases)
					vc.oblige(s, "variant", fmt.Sprintf("loop%d", lc.ord), "decreases "+lc.spec.DecText, lc.pos,
						smtAnd(app("<", v1, variant0), app("<=", "0", variant0)))
				}
			}
		case o.kind == oBreak && (o.label == "" || o.label == lc.label):
			outs = append(outs, Outcome{kind: oNormal, st: o.st})
		default:
			outs = append(outs, o)
		}
	}
	return outs
}

func (vc *VC) execRange(st *State, x *ast.RangeStmt, label string) []Outcome {
	xt := vc.typeOf(x.X)
	spec, ord := vc.loopSpec(x)
	lc := loopCtx{spec, ord, x.Pos(), label}
	switch u := under(xt).(type) {
	case *types.Slice:
		s := vc.evalExpr(st, x.X)
		// hidden index
		hidx := types.NewVar(x.Pos(), vc.curPkg.P.Types, fmt.Sprintf("_idx%d", ord), types.Typ[types.Int])
		st.env[hidx] = intV("0", types.Typ[types.Int])
		vc.hidden[fmt.Sprintf("_idx%d", ord)] = hidx
		// hidden name of the slice being ranged over (its value at loop entry): `_rangeN` in invariants
		hrng := types.NewVar(x.Pos(), vc.curPkg.P.Types, fmt.Sprintf("_range%d", ord), xt)
		st.env[hrng] = s
		vc.hidden[fmt.Sprintf("_range%d", ord)] = hrng
		bind := func(cs *State) {
			k := cs.env[hidx]
			if x.Key != nil {
				if id, ok := x.Key.(*ast.Ident); ok && id.Name != "_" {
					if x.Tok == token.DEFINE {
						vc.declareLocal(cs, id, k)
					} else {
						vc.assignTo(cs, x.Key, k, false)
					}
				}
			}
		}
		return vc.loopCommon(st, lc, bind,
			func(cs *State) string { return app("<", cs.env[hidx].Term, s.Len) },
			func(cs *State) []Outcome {
				if x.Value != nil {
					if id, ok := x.Value.(*ast.Ident); !ok || id.Name != "_" {
						ev := vc.loadElem(cs, s, cs.env[hidx].Term, u.Elem())
						if x.Tok == token.DEFINE {
							vc.declareLocal(cs, x.Value.(*ast.Ident), ev)
						} else {
							vc.assignTo(cs, x.Value, ev, false)
						}
					}
				}
				return vc.exec(cs, x.Body)
			},
			func(cs *State) {
				cs.env[hidx] = intV(app("+", cs.env[hidx].Term, "1"), types.Typ[types.Int])
			},
			func(cs *State) string {
				return smtAnd(app("<=", "0", cs.env[hidx].Term), app("<=", cs.env[hidx].Term, s.Len))
			})
	case *types.Map:
		m := vc.evalExpr(st, x.X)
		mp := mapCompPrefix(xt)
		// iteration order is unconstrained: each iteration sees an arbitrary key of the (entry) domain
		domH := vc.heapGet(st, mp+".dom", "(Array Int (Array Int Bool))")
		mref := m.Term
		more := vc.fresh("more", "Bool")
		_ = more
		return vc.loopCommon(st, lc, nil,
			func(cs *State) string { return vc.fresh("mapiter_more", "Bool") },
			func(cs *State) []Outcome {
				k := vc.freshValue(cs, "key", u.Key())
				kt := vc.mapKeyTerm(x, k)
				cs.assume(sel2(domH, mref, kt))
				cs.assume(smtNot(smtEq(mref, "0")))
				if x.Key != nil {
					if id, ok := x.Key.(*ast.Ident); !ok || id.Name != "_" {
						if x.Tok == token.DEFINE {
							vc.declareLocal(cs, x.Key.(*ast.Ident), k)
						} else {
							vc.assignTo(cs, x.Key, k, false)
						}
					}
				}
				if x.Value != nil {
					if id, ok := x.Value.(*ast.Ident); !ok || id.Name != "_" {
						ev, _ := vc.mapGet(cs, xt, u, m.Term, kt)
						if x.Tok == token.DEFINE {
							vc.declareLocal(cs, x.Value.(*ast.Ident), ev)
						} else {
							vc.assignTo(cs, x.Value, ev, false)
						}
					}
				}
				return vc.exec(cs, x.Body)
			},
			func(cs *State) {}, nil)
	case *types.Basic:
		if u.Info()&types.IsString != 0 {
			vc.unsupported(x, "range over string (rune decoding)")
		}
	}
	vc.unsupported(x, "range over %s", xt)
	return nil
}

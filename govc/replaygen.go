package main

// Generic replay of a solver counterexample against the real code.
//
// Applies when the function under contract takes only inputs that can be rebuilt from the model (integers, booleans,
// structs of those by value or behind one pointer, byte slices up to 32 bytes) and when the failed obligation is
//   - a postcondition whose clause lies in the executable subset below (arithmetic, comparison, boolean connectives,
//     len, min/max, old(), field selection, err == nil / sentinel, predicates that expand into that subset), or
//   - a run-time safety obligation (bounds, slice, nil, divzero, nilmap, panic, assert-type): the run must panic.
// The generated in-package test is injected with `go test -overlay`; it FAILS iff the real code violates the clause
// for the model's inputs (outcome "reproduced"). Anything outside the subset: no executable replay.

import (
	"fmt"
	"go/ast"
	"go/types"
	"sort"
	"strconv"
	"strings"
)

type rgen struct {
	w       *World
	pi      *PkgInfo
	c       *Contract
	inputs  map[string]string // Go-level input name -> model value
	env     map[string]rval   // spec name -> Go expression + type
	olds    []string          // statements evaluated before the call
	nold    int
	inOld   bool
	helpers map[string]bool
	fail    string
	imports map[string]string
	approx  []string // inputs the model cannot describe (tried with their zero value)
}

type rval struct {
	expr string
	T    types.Type
}

func (g *rgen) bad(f string, a ...any) {
	if g.fail == "" {
		g.fail = fmt.Sprintf(f, a...)
	}
}

func modelInt(s string) (string, bool) {
	s = strings.TrimSpace(s)
	if strings.HasPrefix(s, "-") {
		if _, err := strconv.ParseUint(s[1:], 10, 64); err == nil {
			return s, true
		}
		return "", false
	}
	if strings.HasPrefix(s, "(- ") && strings.HasSuffix(s, ")") {
		n := strings.TrimSpace(s[3 : len(s)-1])
		if _, err := strconv.ParseUint(n, 10, 64); err == nil {
			return "-" + n, true
		}
		return "", false
	}
	if _, err := strconv.ParseUint(s, 10, 64); err == nil {
		return s, true
	}
	return "", false
}

func isIntegerT(T types.Type) bool {
	b, ok := under(T).(*types.Basic)
	return ok && b.Info()&types.IsInteger != 0
}

func isBoolT(T types.Type) bool {
	b, ok := under(T).(*types.Basic)
	return ok && b.Info()&types.IsBoolean != 0
}

func (g *rgen) typeStr(T types.Type) string {
	return types.TypeString(T, func(p *types.Package) string {
		if p.Path() == g.pi.Path {
			return ""
		}
		g.imports[p.Name()] = p.Path()
		return p.Name()
	})
}

// literal builds a Go expression of type T from the model values stored under the input path `name`.
func (g *rgen) literal(name string, T types.Type, depth int) string {
	switch u := under(T).(type) {
	case *types.Basic:
		v, have := g.inputs[name]
		switch {
		case u.Info()&types.IsInteger != 0:
			if !have {
				return g.typeStr(T) + "(0)"
			}
			n, ok := modelInt(v)
			if !ok {
				g.bad("model value %q of %s is not an integer", v, name)
				return "0"
			}
			lo, hi, okR := intRange(T)
			_ = lo
			_ = hi
			if !okR {
				g.bad("no range for %s", name)
			}
			return g.typeStr(T) + "(" + n + ")"
		case u.Info()&types.IsBoolean != 0:
			if have && v == "true" {
				return "true"
			}
			return "false"
		}
		if u.Info()&types.IsString != 0 {
			// a string is rebuilt from its length and first 32 bytes in the model when the query constrains them;
			// otherwise the empty string is tried (a reproduced failure is real whatever inputs it was found with)
			if ln, ok := g.inputs[name+"#strlen"]; ok {
				if n, err := strconv.Atoi(ln); err == nil && n >= 0 && n <= 1<<16 {
					bs := make([]byte, n)
					for i := 0; i < n && i < 32; i++ {
						if v, ok := g.inputs[fmt.Sprintf("%s#str[%d]", name, i)]; ok {
							if m, ok := modelInt(v); ok {
								if c, err := strconv.Atoi(m); err == nil && c >= 0 && c < 256 {
									bs[i] = byte(c)
								}
							}
						}
					}
					for i := 32; i < n; i++ {
						bs[i] = 'x'
					}
					return g.typeStr(T) + "(" + strconv.Quote(string(bs)) + ")"
				}
			}
			g.approx = append(g.approx, name)
			return g.typeStr(T) + "(\"\")"
		}
		if u.Info()&types.IsFloat != 0 {
			g.approx = append(g.approx, name)
			return g.typeStr(T) + "(0)"
		}
		g.bad("input %s of type %s cannot be rebuilt from the model", name, T)
		return "nil"
	case *types.Struct:
		var fs []string
		for i := 0; i < u.NumFields(); i++ {
			f := u.Field(i)
			fs = append(fs, f.Name()+": "+g.literal(name+"."+f.Name(), f.Type(), depth))
		}
		return g.typeStr(T) + "{" + strings.Join(fs, ", ") + "}"
	case *types.Pointer:
		if depth > 0 {
			g.bad("nested pointer input %s", name)
			return "nil"
		}
		if v, have := g.inputs[name]; have && v == "0" {
			return "nil"
		}
		if _, ok := under(u.Elem()).(*types.Struct); !ok {
			g.bad("pointer input %s does not point to a struct", name)
			return "nil"
		}
		return "&" + g.literal(name+"->", u.Elem(), depth+1)
	case *types.Slice:
		if b, ok := under(u.Elem()).(*types.Basic); ok && b.Kind() == types.Uint8 {
			ln, have := g.inputs[name+"#len"]
			if !have {
				return "nil"
			}
			n, err := strconv.Atoi(ln)
			if err != nil || n > 1<<20 {
				g.bad("byte slice %s has length %s in the model (limit 2^20)", name, ln)
				return "nil"
			}
			if a, ok := g.inputs[name+"#arr"]; ok && a == "0" {
				return "nil"
			}
			cp := n
			if cv, ok := g.inputs[name+"#cap"]; ok {
				if c, err := strconv.Atoi(cv); err == nil && c >= n && c <= 1<<21 {
					cp = c
				}
			}
			var bs []string
			for i := 0; i < n && i < 32; i++ {
				c := "0"
				if v, ok := g.inputs[fmt.Sprintf("%s[%d]", name, i)]; ok {
					if m, ok := modelInt(v); ok {
						c = m
					}
				}
				bs = append(bs, c)
			}
			g.helpers["bytes"] = true
			return fmt.Sprintf("verifbytes(%d, %d, %s)", n, cp, strings.Join(append([]string{}, bs...), ", "))
		}
		g.approx = append(g.approx, name)
		return "nil"
	case *types.Interface, *types.Map, *types.Signature, *types.Chan:
		g.approx = append(g.approx, name)
		return "nil"
	}
	g.bad("input %s of type %s cannot be rebuilt from the model", name, T)
	return "nil"
}

// i64 wraps an integer-typed Go expression into int64 (spec integers are mathematical).
func (g *rgen) i64(v rval) string {
	if v.T != nil && isIntegerT(v.T) {
		return "int64(" + v.expr + ")"
	}
	return v.expr
}

var intT = types.Typ[types.Int64]

func (g *rgen) compile(e SExpr) rval {
	switch x := e.(type) {
	case *SInt:
		return rval{"int64(" + x.V + ")", intT}
	case *SBool:
		return rval{fmt.Sprint(x.V), types.Typ[types.Bool]}
	case *SIdent:
		if v, ok := g.env[x.Name]; ok {
			if isIntegerT(v.T) {
				return rval{g.i64(v), intT}
			}
			return v
		}
		if x.Name == "nil" {
			return rval{"nil", nil}
		}
		if o := g.pi.P.Types.Scope().Lookup(x.Name); o != nil {
			switch o.(type) {
			case *types.Const, *types.Var:
				if isIntegerT(o.Type()) {
					return rval{"int64(" + x.Name + ")", intT}
				}
				return rval{x.Name, o.Type()}
			}
		}
		g.bad("identifier %s is outside the executable subset", x.Name)
		return rval{"0", intT}
	case *SUnary:
		a := g.compile(x.X)
		switch x.Op {
		case "!":
			return rval{"!(" + a.expr + ")", types.Typ[types.Bool]}
		case "-":
			return rval{"-(" + a.expr + ")", intT}
		}
	case *SBinary:
		switch x.Op {
		case "==>":
			a, b := g.compile(x.X), g.compile(x.Y)
			return rval{"(!(" + a.expr + ") || (" + b.expr + "))", types.Typ[types.Bool]}
		case "<==>":
			a, b := g.compile(x.X), g.compile(x.Y)
			return rval{"((" + a.expr + ") == (" + b.expr + "))", types.Typ[types.Bool]}
		case "&&", "||":
			a, b := g.compile(x.X), g.compile(x.Y)
			return rval{"((" + a.expr + ") " + x.Op + " (" + b.expr + "))", types.Typ[types.Bool]}
		case "==", "!=", "<", "<=", ">", ">=":
			a, b := g.compile(x.X), g.compile(x.Y)
			return rval{"((" + a.expr + ") " + x.Op + " (" + b.expr + "))", types.Typ[types.Bool]}
		case "+", "-", "*":
			// spec integers are mathematical: the helpers abort the replay (skip, not a counterexample) when the
			// value leaves int64
			a, b := g.compile(x.X), g.compile(x.Y)
			g.helpers["arith"] = true
			fn := map[string]string{"+": "verifadd", "-": "verifsub", "*": "verifmul"}[x.Op]
			return rval{fn + "(" + a.expr + ", " + b.expr + ")", intT}
		case "/", "%":
			a, b := g.compile(x.X), g.compile(x.Y)
			return rval{"((" + a.expr + ") " + x.Op + " (" + b.expr + "))", intT}
		}
	case *SSel:
		if id, ok := x.X.(*SIdent); ok {
			if _, isLocal := g.env[id.Name]; !isLocal {
				// package-qualified name
				for _, imp := range g.pi.P.Types.Imports() {
					if imp.Name() == id.Name {
						if o := imp.Scope().Lookup(x.Name); o != nil && o.Exported() {
							g.imports[imp.Name()] = imp.Path()
							if isIntegerT(o.Type()) {
								return rval{"int64(" + id.Name + "." + x.Name + ")", intT}
							}
							return rval{id.Name + "." + x.Name, o.Type()}
						}
					}
				}
			}
		}
		if strings.HasPrefix(x.Name, "$") {
			g.bad("ghost field %s", x.Name)
			return rval{"0", intT}
		}
		base := g.compileRaw(x.X)
		if base.T == nil {
			g.bad("selection on untyped %s", x.X)
			return rval{"0", intT}
		}
		T := base.T
		if p, ok := under(T).(*types.Pointer); ok {
			T = p.Elem()
		}
		idx := findField(T, x.Name)
		if idx == nil {
			g.bad("no field %s", x.Name)
			return rval{"0", intT}
		}
		ft := T
		for _, i := range idx {
			if p, ok := under(ft).(*types.Pointer); ok {
				ft = p.Elem()
			}
			ft = under(ft).(*types.Struct).Field(i).Type()
		}
		r := rval{base.expr + "." + x.Name, ft}
		if isIntegerT(ft) {
			return rval{g.i64(r), intT}
		}
		return r
	case *SIndex:
		base := g.compileRaw(x.X)
		i := g.compile(x.I)
		if base.T != nil {
			if s, ok := under(base.T).(*types.Slice); ok {
				r := rval{base.expr + "[" + i.expr + "]", s.Elem()}
				if isIntegerT(s.Elem()) {
					return rval{g.i64(r), intT}
				}
				return r
			}
			if isString(base.T) {
				return rval{"int64(" + base.expr + "[" + i.expr + "])", intT}
			}
		}
		g.bad("index on %s", x.X)
	case *SCall:
		id, ok := x.Fun.(*SIdent)
		if !ok {
			g.bad("call %s", x.Fun)
			break
		}
		switch id.Name {
		case "len":
			a := g.compileRaw(x.Args[0])
			return rval{"int64(len(" + a.expr + "))", intT}
		case "min", "max":
			g.helpers[id.Name] = true
			a, b := g.compile(x.Args[0]), g.compile(x.Args[1])
			return rval{"verif" + id.Name + "(" + a.expr + ", " + b.expr + ")", intT}
		case "ite":
			g.helpers["ite"] = true
			c, a, b := g.compile(x.Args[0]), g.compile(x.Args[1]), g.compile(x.Args[2])
			return rval{"verifite(" + c.expr + ", " + a.expr + ", " + b.expr + ")", intT}
		case "sliceOf":
			// sliceOf(a, b, lo, hi): a is exactly the sub-slice b[lo:hi] (same backing array)
			g.helpers["sliceOf"] = true
			a, bb := g.compileRaw(x.Args[0]), g.compileRaw(x.Args[1])
			lo, hi := g.compile(x.Args[2]), g.compile(x.Args[3])
			return rval{"verifSliceOf(" + a.expr + ", " + bb.expr + ", " + lo.expr + ", " + hi.expr + ")", types.Typ[types.Bool]}
		case "isnil":
			a := g.compileRaw(x.Args[0])
			return rval{"(" + a.expr + " == nil)", types.Typ[types.Bool]}
		case "old":
			if g.inOld {
				return g.compile(x.Args[0])
			}
			g.inOld = true
			v := g.compile(x.Args[0])
			g.inOld = false
			g.nold++
			n := fmt.Sprintf("verifold%d", g.nold)
			g.olds = append(g.olds, n+" := "+v.expr)
			return rval{n, v.T}
		}
		if pd := g.w.Preds[g.c.Pkg+"::"+id.Name]; pd != nil && !pd.Uninterp && !pd.Rec && pd.Body != nil && len(pd.Params) == len(x.Args) {
			saved := g.env
			ne := map[string]rval{}
			for k, v := range saved {
				ne[k] = v
			}
			for i, p := range pd.Params {
				ne[p.Name] = g.compileRaw(x.Args[i])
			}
			g.env = ne
			r := g.compile(pd.Body)
			g.env = saved
			return r
		}
		g.bad("%s(...) is outside the executable subset", id.Name)
	case *SQuant:
		g.bad("quantifier")
	default:
		g.bad("%T", e)
	}
	if g.fail == "" {
		g.bad("expression %s is outside the executable subset", e)
	}
	return rval{"0", intT}
}

// compileRaw is compile without the int64 wrapping of a named value (needed as a base of selection / len / index).
func (g *rgen) compileRaw(e SExpr) rval {
	if id, ok := e.(*SIdent); ok {
		if v, ok := g.env[id.Name]; ok {
			return v
		}
	}
	if s, ok := e.(*SSel); ok && !strings.HasPrefix(s.Name, "$") {
		base := g.compileRaw(s.X)
		if base.T != nil {
			T := base.T
			if p, ok := under(T).(*types.Pointer); ok {
				T = p.Elem()
			}
			if idx := findField(T, s.Name); idx != nil {
				ft := T
				for _, i := range idx {
					if p, ok := under(ft).(*types.Pointer); ok {
						ft = p.Elem()
					}
					ft = under(ft).(*types.Struct).Field(i).Type()
				}
				return rval{base.expr + "." + s.Name, ft}
			}
		}
	}
	return g.compile(e)
}

var panicKinds = map[string]bool{"bounds": true, "slice": true, "nil": true, "divzero": true, "nilmap": true, "panic": true, "assert-type": true}

func genericReplay(w *World, o *Obligation, rp *ReplayFile) (src, pkgRel, name string, ok bool, why string) {
	var c *Contract
	for _, k := range sortedKeys(w.Contracts) {
		if x := w.Contracts[k]; shortPkg(x.Pkg)+"."+x.Key == o.Func {
			c = x
		}
	}
	if c == nil {
		return "", "", "", false, "no contract"
	}
	pi := w.Pkgs[c.Pkg]
	if pi == nil || pi.Funcs[c.Key] == nil {
		return "", "", "", false, "no declaration"
	}
	fd := pi.Funcs[c.Key]
	fobj, _ := pi.P.TypesInfo.Defs[fd.Name].(*types.Func)
	if fobj == nil {
		return "", "", "", false, "no type information"
	}
	sig := fobj.Type().(*types.Signature)
	if sig.TypeParams() != nil || (sig.Recv() != nil && sig.RecvTypeParams() != nil) {
		return "", "", "", false, "generic function"
	}
	g := &rgen{w: w, pi: pi, c: c, inputs: rp.Inputs, env: map[string]rval{}, helpers: map[string]bool{}, imports: map[string]string{}}
	var clause *Clause
	expectPanic := false
	allPosts := false
	switch {
	case o.Kind == "post":
		label := strings.TrimPrefix(o.Family, o.Func+"#post.")
		for i := range c.Ensures {
			if c.Ensures[i].Label == label {
				clause = &c.Ensures[i]
			}
		}
		if clause == nil {
			return "", "", "", false, "clause not found"
		}
	case panicKinds[o.Kind]:
		expectPanic = true
	case o.Kind == "overflow" || o.Kind == "narrow":
		// silent in Go: the run counts when, on the solver's inputs, the real code violates one of the function's
		// executable postconditions (the wrap-around shows as a wrong result)
		allPosts = true
	default:
		return "", "", "", false, "obligation kind " + o.Kind + " has no observable run-time effect of its own (silent wrap-around, callee precondition, invariant)"
	}
	var decls, args []string
	recvExpr := ""
	pname := func(i int, v *types.Var) string {
		n := v.Name()
		if i < len(c.Params) && c.Params[i] != "" && c.Params[i] != "_" {
			n = c.Params[i]
		}
		if n == "" || n == "_" {
			n = fmt.Sprintf("verifarg%d", i)
		}
		return n
	}
	if r := sig.Recv(); r != nil {
		rn := r.Name()
		if rn == "" || rn == "_" {
			rn = "verifrecv"
		}
		decls = append(decls, fmt.Sprintf("var %s %s = %s", rn, g.typeStr(r.Type()), g.literal(r.Name(), r.Type(), 0)))
		g.env[rn] = rval{rn, r.Type()}
		g.env["self"] = rval{rn, r.Type()}
		recvExpr = rn + "."
	}
	for i := 0; i < sig.Params().Len(); i++ {
		v := sig.Params().At(i)
		n := pname(i, v)
		if named, ok := v.Type().(*types.Named); ok && named.Obj().Pkg() != nil && named.Obj().Pkg().Path() == "context" {
			decls = append(decls, n+" := context.Background()")
			g.helpers["context"] = true
		} else {
			T := v.Type()
			if sig.Variadic() && i == sig.Params().Len()-1 {
				// the variadic parameter is declared as the slice it is inside the function
			}
			decls = append(decls, fmt.Sprintf("var %s %s = %s", n, g.typeStr(T), g.literal(v.Name(), T, 0)))
		}
		g.env[n] = rval{n, v.Type()}
		if sig.Variadic() && i == sig.Params().Len()-1 {
			args = append(args, n+"...")
		} else {
			args = append(args, n)
		}
	}
	var rnames []string
	for i := 0; i < sig.Results().Len(); i++ {
		n := fmt.Sprintf("verifres%d", i)
		rnames = append(rnames, n)
		sn := sig.Results().At(i).Name()
		if i < len(c.Results) && c.Results[i] != "_" && c.Results[i] != "" {
			sn = c.Results[i]
		}
		if sn != "" && sn != "_" {
			g.env[sn] = rval{n, sig.Results().At(i).Type()}
		}
		g.env[fmt.Sprintf("result%d", i)] = rval{n, sig.Results().At(i).Type()}
		if sig.Results().Len() == 1 {
			g.env["result"] = rval{n, sig.Results().At(i).Type()}
		}
	}
	// the preconditions are evaluated on the rebuilt inputs first: a run outside them proves nothing
	var pres []string
	g.inOld = true // old(e) in a precondition is e itself
	for _, r := range c.Requires {
		pe := g.compile(r.Expr).expr
		if g.fail != "" {
			if rp.CandidateOnly || len(g.approx) > 0 {
				return "", "", "", false, "precondition not executable (" + g.fail + ") and the inputs are only candidates"
			}
			g.fail = ""
			continue
		}
		pres = append(pres, pe)
	}
	g.inOld = false
	cond := "true"
	if clause != nil {
		cond = g.compile(clause.Expr).expr
	}
	if g.fail != "" {
		return "", "", "", false, g.fail
	}
	type cpost struct{ cond, text string }
	var posts []cpost
	if allPosts {
		for i := range c.Ensures {
			savedOlds, savedN := len(g.olds), g.nold
			pe := g.compile(c.Ensures[i].Expr).expr
			if g.fail != "" {
				g.fail = ""
				g.olds = g.olds[:savedOlds]
				g.nold = savedN
				continue
			}
			posts = append(posts, cpost{pe, c.Ensures[i].Text})
		}
		if len(posts) == 0 {
			return "", "", "", false, "obligation kind " + o.Kind + " is silent at run time and no postcondition of the function is executable"
		}
	}
	var b strings.Builder
	b.WriteString("package " + pi.P.Types.Name() + "\n\nimport (\n\t\"testing\"\n")
	if g.helpers["context"] {
		b.WriteString("\t\"context\"\n")
	}
	for _, n := range sortedKeys(g.imports) {
		b.WriteString("\t" + n + " " + strconv.Quote(g.imports[n]) + "\n")
	}
	b.WriteString(")\n\n")
	if g.helpers["min"] {
		b.WriteString("func verifmin(a, b int64) int64 { if a < b { return a }; return b }\n")
	}
	if g.helpers["max"] {
		b.WriteString("func verifmax(a, b int64) int64 { if a > b { return a }; return b }\n")
	}
	if g.helpers["bytes"] {
		b.WriteString("func verifbytes(n, c int, first ...byte) []byte { s := make([]byte, n, c); copy(s, first); return s }\n")
	}
	if g.helpers["sliceOf"] {
		b.WriteString("func verifSliceOf[T any](a, b []T, lo, hi int64) bool {\n\tif lo < 0 || hi < lo || hi > int64(cap(b)) || int64(len(a)) != hi-lo {\n\t\treturn false\n\t}\n\tif len(a) == 0 {\n\t\treturn true\n\t}\n\treturn &a[0] == &b[:cap(b)][lo]\n}\n")
	}
	if g.helpers["arith"] {
		b.WriteString("type verifOverflow struct{}\n")
		b.WriteString("func verifadd(a, b int64) int64 { c := a + b; if (c > a) != (b > 0) { panic(verifOverflow{}) }; return c }\n")
		b.WriteString("func verifsub(a, b int64) int64 { c := a - b; if (c < a) != (b > 0) { panic(verifOverflow{}) }; return c }\n")
		b.WriteString("func verifmul(a, b int64) int64 { if a == 0 || b == 0 { return 0 }; c := a * b; if c/b != a || (a == -1 && b == -9223372036854775808) || (b == -1 && a == -9223372036854775808) { panic(verifOverflow{}) }; return c }\n")
	}
	if g.helpers["ite"] {
		b.WriteString("func verifite(c bool, a, b int64) int64 { if c { return a }; return b }\n")
	}
	b.WriteString("// replay of " + o.ID + "\nfunc TestVerifReplay(t *testing.T) {\n")
	if g.helpers["arith"] {
		b.WriteString("\tdefer func() {\n\t\tif r := recover(); r != nil {\n\t\t\tif _, ok := r.(verifOverflow); ok {\n\t\t\t\tt.Skip(\"a specification value leaves int64: the clause cannot be evaluated on these inputs\")\n\t\t\t}\n\t\t\tpanic(r)\n\t\t}\n\t}()\n")
	}
	for _, d := range decls {
		b.WriteString("\t" + d + "\n")
	}
	var inNames []string
	for k := range rp.Inputs {
		inNames = append(inNames, k)
	}
	sort.Strings(inNames)
	var ins []string
	for _, k := range inNames {
		ins = append(ins, k+"="+rp.Inputs[k])
	}
	b.WriteString("\tt.Logf(\"model inputs: %s\", " + strconv.Quote(strings.Join(ins, " ")) + ")\n")
	if len(g.approx) > 0 {
		b.WriteString("\tt.Logf(\"inputs the model cannot describe, tried with their zero value: %s\", " + strconv.Quote(strings.Join(g.approx, " ")) + ")\n")
	}
	for _, pe := range pres {
		b.WriteString("\tif !(" + pe + ") {\n\t\tt.Skip(\"the rebuilt inputs do not satisfy a precondition: not a counterexample\")\n\t}\n")
	}
	for _, s := range g.olds {
		b.WriteString("\t" + s + "\n")
	}
	call := recvExpr + fd.Name.Name + "(" + strings.Join(args, ", ") + ")"
	if expectPanic {
		b.WriteString("\tdefer func() {\n\t\tif r := recover(); r != nil {\n\t\t\tt.Fatalf(\"REPRODUCED: the real code panics on the solver's inputs: %v\", r)\n\t\t}\n\t}()\n")
		b.WriteString("\t" + call + "\n}\n")
	} else {
		if len(rnames) > 0 {
			b.WriteString("\t" + strings.Join(rnames, ", ") + " := " + call + "\n")
			for _, n := range rnames {
				b.WriteString("\t_ = " + n + "\n")
			}
		} else {
			b.WriteString("\t" + call + "\n")
		}
		if allPosts {
			for _, p := range posts {
				b.WriteString("\tif !(" + p.cond + ") {\n\t\tt.Fatalf(\"REPRODUCED: on the inputs of the refuted " + o.Kind + " obligation the real code violates: %s; results: %v\", " + strconv.Quote(p.text) + ", []any{" + strings.Join(rnames, ", ") + "})\n\t}\n")
			}
			b.WriteString("}\n")
		} else {
			b.WriteString("\tif !(" + cond + ") {\n\t\tt.Fatalf(\"REPRODUCED: postcondition violated by the real code: %s; results: %v\", " + strconv.Quote(clause.Text) + ", []any{" + strings.Join(rnames, ", ") + "})\n\t}\n}\n")
		}
	}
	rel := strings.TrimPrefix(strings.TrimPrefix(c.Pkg, repoModule), "/")
	if rel == "" {
		rel = "."
	}
	_ = ast.NewIdent
	return b.String(), rel, "TestVerifReplay", true, ""
}

package main

import (
	"fmt"
	"go/ast"
	"go/constant"
	"go/token"
	"go/types"
	"regexp"
	"strconv"
	"strings"
)

type ModTarget struct {
	comp string
	sort string
	lvl  int
	idx  string // index term at the outer level (ref / array id / map ref); "" for level 0
	text string
}

// resolveMods turns the modifies entries of a contract into heap targets, evaluated in scope sc.
func (vc *VC) resolveMods(sc *SpecScope, c *Contract) (targets []ModTarget, wholeHeap bool, allocToo bool) {
	vc.specMode++
	defer func() { vc.specMode-- }()
	for _, m := range c.Modifies {
		switch x := m.Expr.(type) {
		case *SIdent:
			switch x.Name {
			case "heap":
				wholeHeap = true
				continue
			case "alloc":
				allocToo = true
				continue
			}
		case *SSel:
			base := vc.evalSpec(sc, x.X)
			if strings.HasPrefix(x.Name, "$") {
				comp, GT := vc.ghostField(sc, base, x.Name)
				ref := base.Term
				vc.leafComps(comp, GT, 1, func(cn, srt string) {
					targets = append(targets, ModTarget{comp: cn, sort: srt, lvl: 1, idx: ref, text: m.Text})
				})
				continue
			}
			if base.T == nil || !isPointer(base.T) {
				vc.specFail(sc, "modifies %s: base is not a pointer", m.Text)
			}
			elT := under(base.T).(*types.Pointer).Elem()
			idx := findField(elT, x.Name)
			if idx == nil {
				vc.specFail(sc, "modifies %s: no such field", m.Text)
			}
			// walk to the field (through embedded value structs)
			comp := structCompPrefix(elT)
			T := elT
			ref := base.Term
			for _, i := range idx {
				if p, ok := under(T).(*types.Pointer); ok {
					// embedded pointer: deref
					v := vc.loadShape(sc.cur, comp, T, 1, func(h string) string { return sel(h, ref) })
					ref = v.Term
					T = p.Elem()
					comp = structCompPrefix(T)
				}
				f := under(T).(*types.Struct).Field(i)
				comp = comp + "." + f.Name()
				T = f.Type()
			}
			vc.leafComps(comp, T, 1, func(cn, srt string) {
				targets = append(targets, ModTarget{comp: cn, sort: srt, lvl: 1, idx: ref, text: m.Text})
			})
			continue
		case *SCall:
			if id, ok := x.Fun.(*SIdent); ok {
				switch id.Name {
				case "elems":
					s := vc.evalSpec(sc, x.Args[0])
					if s.K != VSlice {
						vc.specFail(sc, "modifies %s: not a slice", m.Text)
					}
					et := under(s.T).(*types.Slice).Elem()
					vc.leafComps(elemCompPrefix(et), et, 2, func(cn, srt string) {
						targets = append(targets, ModTarget{comp: cn, sort: srt, lvl: 2, idx: s.Arr, text: m.Text})
					})
					continue
				case "mapof":
					mv := vc.evalSpec(sc, x.Args[0])
					mt, ok := under(mv.T).(*types.Map)
					if !ok {
						vc.specFail(sc, "modifies %s: not a map", m.Text)
					}
					mp := mapCompPrefix(mv.T)
					targets = append(targets, ModTarget{comp: mp + ".dom", sort: "(Array Int (Array Int Bool))", lvl: 2, idx: mv.Term, text: m.Text})
					vc.leafComps(mp+".val", mt.Elem(), 2, func(cn, srt string) {
						targets = append(targets, ModTarget{comp: cn, sort: srt, lvl: 2, idx: mv.Term, text: m.Text})
					})
					continue
				case "all":
					base := vc.evalSpec(sc, x.Args[0])
					elT := under(base.T).(*types.Pointer).Elem()
					vc.leafComps(cellPrefix(elT), elT, 1, func(cn, srt string) {
						targets = append(targets, ModTarget{comp: cn, sort: srt, lvl: 1, idx: base.Term, text: m.Text})
					})
					continue
				case "deref":
					pv := vc.evalSpec(sc, x.Args[0])
					if pv.Addr == nil {
						vc.specFail(sc, "modifies %s: target of the pointer is not statically known", m.Text)
					}
					l := *pv.Addr
					vc.leafComps(l.comp, l.T, l.lvl, func(cn, srt string) {
						targets = append(targets, ModTarget{comp: cn, sort: srt, lvl: l.lvl, idx: l.outer, text: m.Text})
					})
					continue
				case "global":
					name := x.Args[0].String()
					o := sc.pkg.P.Types.Scope().Lookup(name)
					if o == nil {
						vc.specFail(sc, "modifies %s: unknown global", m.Text)
					}
					vc.leafComps("global:"+o.Pkg().Path()+"."+o.Name(), o.Type(), 0, func(cn, srt string) {
						targets = append(targets, ModTarget{comp: cn, sort: srt, lvl: 0, text: m.Text})
					})
					continue
				case "comp":
					// comp(T.f): the field f of every object of struct type T (a whole heap component)
					sel, ok := x.Args[0].(*SSel)
					if !ok {
						vc.specFail(sc, "modifies %s: comp(Type.field) expected", m.Text)
					}
					T := vc.resolveType(sc, sel.X.String())
					if T == nil {
						vc.specFail(sc, "modifies %s: unknown type", m.Text)
					}
					idx := findField(T, sel.Name)
					if len(idx) != 1 {
						vc.specFail(sc, "modifies %s: no such (direct) field", m.Text)
					}
					f := under(T).(*types.Struct).Field(idx[0])
					vc.leafComps(structCompPrefix(T)+"."+f.Name(), f.Type(), 1, func(cn, srt string) {
						targets = append(targets, ModTarget{comp: cn, sort: srt, lvl: 0, idx: "*", text: m.Text})
					})
					continue
				case "allelems":
					// allelems(T): the elements of every slice of T (a whole heap component)
					T := vc.resolveType(sc, strings.Trim(x.Args[0].String(), "\""))
					if T == nil {
						vc.specFail(sc, "modifies %s: unknown type", m.Text)
					}
					vc.leafComps(elemCompPrefix(T), T, 2, func(cn, srt string) {
						targets = append(targets, ModTarget{comp: cn, sort: srt, lvl: 0, idx: "*", text: m.Text})
					})
					continue
				case "ghost":
					continue
				}
			}
		}
		vc.specFail(sc, "unsupported modifies entry %s", m.Text)
	}
	return
}

func innerSort(sort string) string {
	// "(Array Int X)" -> "X"
	return strings.TrimSuffix(strings.TrimPrefix(sort, "(Array Int "), ")")
}

func (vc *VC) havocTargets(st *State, targets []ModTarget) {
	for _, t := range targets {
		h := vc.heapGet(st, t.comp, t.sort)
		switch t.lvl {
		case 0:
			nh := vc.fresh("H_"+t.comp, t.sort)
			if t.idx == "*" {
				vc.heapSymWF(nh, t.comp, t.sort, st.alloc)
			}
			st.heap[t.comp] = nh
			st.logWrite(t.comp, "*")
		case 1:
			nv := vc.fresh("hv", innerSort(t.sort))
			vc.heapSymWF(nv, t.comp, innerSort(t.sort), st.alloc)
			st.heap[t.comp] = vc.bindTerm(st, "H_"+t.comp, t.sort, sto(h, t.idx, nv))
			st.logWrite(t.comp, t.idx)
		default:
			n := vc.rowUpdate(st, t.comp, t.sort, t.idx, nil)
			vc.heapSymWF(n, t.comp, t.sort, st.alloc)
		}
		vc.written[t.comp] = true
	}
}

// bindContractNames maps the parameter/receiver/result names of callee to values.
func (vc *VC) contractNames(c *Contract, callee *types.Func, sig *types.Signature, recv *Value, args []*Value, results []*Value) map[string]*Value {
	names := map[string]*Value{}
	osig := callee.Type().(*types.Signature)
	if recv != nil {
		names["self"] = recv
		if osig.Recv() != nil && osig.Recv().Name() != "" && osig.Recv().Name() != "_" {
			names[osig.Recv().Name()] = recv
		}
	}
	for i := 0; i < osig.Params().Len() && i < len(args); i++ {
		n := osig.Params().At(i).Name()
		if i < len(c.Params) && c.Params[i] != "_" {
			n = c.Params[i]
		}
		if n != "" && n != "_" {
			names[n] = args[i]
		}
	}
	for i := 0; i < len(results); i++ {
		n := ""
		if i < osig.Results().Len() {
			n = osig.Results().At(i).Name()
		}
		if i < len(c.Results) {
			n = c.Results[i]
		}
		if n != "" && n != "_" {
			names[n] = results[i]
		}
		names[fmt.Sprintf("result%d", i)] = results[i]
	}
	if len(results) == 1 {
		names["result"] = results[0]
	}
	return names
}

func (vc *VC) calleePkg(callee *types.Func) *PkgInfo {
	if callee.Pkg() == nil {
		return vc.pkg
	}
	if pi := vc.w.Pkgs[callee.Pkg().Path()]; pi != nil {
		return pi
	}
	return nil
}

func (vc *VC) applyContract(st *State, call *ast.CallExpr, c *Contract, callee *types.Func, sig *types.Signature, recv *Value, args []*Value) []*Value {
	key := c.Pkg + "::" + c.Key
	if c.Trusted {
		vc.depsUsed[key] = true
	} else {
		vc.calleesWithContract[key] = true
	}
	pi := vc.calleePkg(callee)
	if pi == nil {
		pi = vc.pkg // dependency outside the module: resolve names in the caller's package
	}
	names := vc.contractNames(c, callee, sig, recv, args, nil)
	if vc.w.Pkgs[c.Pkg] != nil {
		st.approx = true // a callee of this module stands for its contract from here on
	}
	pre := &SpecScope{cur: st, old: nil, names: names, pkg: pi, predPkg: c.Pkg, where: "call " + key}
	for _, r := range c.Requires {
		t := vc.evalSpecBoolIn(pre, r.Expr)
		vc.oblige(st, "pre", shortKey(c)+"."+r.Label, "requires "+r.Text+" [call at "+vc.w.pos(call.Pos())+"]", call.Pos(), t)
		if len(vc.guards) == 0 {
			st.assume(t)
		}
	}
	if c.RecDec != nil && vc.contract != nil && vc.contract.RecDec != nil && vc.inlineDepth == 0 {
		// a call between functions that declare a recursion measure (a self-call in particular): the callee's
		// measure on its arguments now is non-negative and (measure, rank) is lexicographically below the caller's
		// at entry
		mNew := vc.evalSpecIntIn(pre, c.RecDec)
		entrySc := &SpecScope{cur: vc.entry, old: vc.entry, names: vc.entryVals, pkg: vc.pkg, where: vc.fname + " recursion measure"}
		mOld := vc.evalSpecIntIn(entrySc, vc.contract.RecDec)
		dec := app("<", mNew, mOld)
		if c.RecRank < vc.contract.RecRank {
			dec = app("<=", mNew, mOld)
		}
		vc.oblige(st, "variant", "recursion", "recursion decreases "+vc.contract.RecDecText+" -> "+c.RecDecText+" [call at "+vc.w.pos(call.Pos())+"]", call.Pos(), smtAnd(app("<=", "0", mNew), dec))
	}
	oldSt := st.clone()
	// closures handed to the callee are verified as callbacks (before the callee's effects are applied,
	// under a havocked heap: the callee may run them at any point)
	cbGhost := map[string]bool{}
	for _, cb := range c.Callbacks {
		if fv := names[cb.Param]; fv != nil && fv.Fn != nil && fv.Fn.Lit != nil {
			if vc.contract != nil && vc.contract.NoCallbacks {
				vc.depsUsed["closure body passed to "+shortKey(c)+" not verified (nocallbacks)"] = true
				// what the closure does to ghost state is unknown
				for _, comp := range sortedKeys(vc.compSort) {
					if strings.HasPrefix(comp, "ghost:") {
						cbGhost[comp] = true
					}
				}
				continue
			}
			for _, comp := range vc.checkCallback(st, fv.Fn, cb, pi, c) {
				cbGhost[comp] = true
			}
		}
	}
	// ghost components the closure changes (through the contracts it calls) are arbitrary after the call: the state
	// the closure ends in is not carried over
	for _, comp := range sortedKeys(cbGhost) {
		n := vc.fresh("H_"+comp, vc.compSort[comp])
		st.heap[comp] = n
		vc.heapSymWF(n, comp, vc.compSort[comp], st.alloc)
	}
	// frame
	if c.HasMod {
		targets, whole, _ := vc.resolveMods(pre, c)
		if whole {
			vc.havocAllHeap(st)
			var ghost []ModTarget
			for _, t := range targets {
				if strings.HasPrefix(t.comp, "ghost:") {
					ghost = append(ghost, t)
				}
			}
			vc.havocTargets(st, ghost)
		} else {
			vc.havocAlloc(st)
			vc.havocTargets(st, targets)
		}
	} else if !c.Pure {
		vc.havocAllHeap(st)
	}
	results := vc.havocResults(st, callee.Name(), sig)
	names = vc.contractNames(c, callee, sig, recv, args, results)
	post := &SpecScope{cur: st, old: oldSt, names: names, pkg: pi, predPkg: c.Pkg, where: "call " + key}
	guard := smtAnd(vc.guards...)
	for _, e := range c.Ensures {
		t := vc.evalSpecBoolIn(post, e.Expr)
		st.assume(smtImp(guard, t))
	}
	for _, e := range c.Defines {
		t := vc.evalSpecBoolIn(post, e.Expr)
		st.assume(smtImp(guard, t))
		vc.assumptions["ghost state is defined by: "+shortKey(c)+" defines "+e.Text] = true
	}
	return results
}

// dispatch: a call of an UNEXPORTED interface method of this module without an interface contract. Every implementation
// lives in the declaring package (closed world); when each of them has a contract, the call stands for "the contract of
// the implementation the dynamic type selects": the frames of all implementations are havocked (union), each
// implementation's postconditions are assumed under the guard typeof(receiver) == that type, its preconditions are
// obligations under the same guard, and the receiver's dynamic type is one of them (or the receiver is nil).
func (vc *VC) dispatch(st *State, call *ast.CallExpr, m *types.Func, sig *types.Signature, recv *Value, args []*Value) ([]*Value, bool) {
	if m.Exported() || m.Pkg() == nil {
		return nil, false
	}
	pi := vc.w.Pkgs[m.Pkg().Path()]
	if pi == nil {
		return nil, false
	}
	type impl struct {
		c   *Contract
		fn  *types.Func
		ptr types.Type
	}
	var impls []impl
	scope := pi.P.Types.Scope()
	for _, n := range scope.Names() {
		tn, ok := scope.Lookup(n).(*types.TypeName)
		if !ok || tn.IsAlias() {
			continue
		}
		named, ok := tn.Type().(*types.Named)
		if !ok || isInterface(named) {
			continue
		}
		for _, RT := range []types.Type{named, types.NewPointer(named)} {
			ms := types.NewMethodSet(RT)
			sel := ms.Lookup(m.Pkg(), m.Name())
			if sel == nil {
				continue
			}
			f, _ := sel.Obj().(*types.Func)
			if f == nil {
				continue
			}
			// only the receiver type the method is declared on (T or *T) is a possible dynamic type with this body
			if _, isPtrRecv := f.Type().(*types.Signature).Recv().Type().(*types.Pointer); isPtrRecv != (RT != types.Type(named)) {
				continue
			}
			c := vc.w.contractFor(f)
			if c == nil {
				return nil, false // an implementation without contract: no closed-world summary
			}
			impls = append(impls, impl{c, f, RT})
		}
	}
	if len(impls) == 0 {
		return nil, false
	}
	st.approx = true
	oldSt := st.clone()
	var guards []string
	type prepared struct {
		im    impl
		guard string
		rv    *Value
	}
	var preps []prepared
	for _, im := range impls {
		g := smtAnd(smtNot(smtEq(recv.Term, "0")), smtEq(app("typeof", recv.Term), vc.typeTag(im.ptr)))
		guards = append(guards, g)
		rv := intV(app("ptrof", recv.Term), im.ptr)
		preps = append(preps, prepared{im, g, rv})
		vc.calleesWithContract[im.c.Pkg+"::"+im.c.Key] = true
		names := vc.contractNames(im.c, im.fn, sig, rv, args, nil)
		pre := &SpecScope{cur: st, old: nil, names: names, pkg: pi, predPkg: im.c.Pkg, where: "dispatch " + im.c.Key}
		vc.guards = append(vc.guards, g)
		for _, r := range im.c.Requires {
			t := vc.evalSpecBoolIn(pre, r.Expr)
			vc.oblige(st, "pre", shortKey(im.c)+"."+r.Label, "requires "+r.Text+" [dynamic dispatch at "+vc.w.pos(call.Pos())+"]", call.Pos(), t)
			if vc.noSafety["pre"] {
				st.assume(smtImp(g, t))
			}
		}
		vc.guards = vc.guards[:len(vc.guards)-1]
	}
	// a nil receiver panics: execution continues only with a non-nil one, whose dynamic type is one of the
	// implementations
	vc.safety(st, "nil", call, smtNot(smtEq(recv.Term, "0")))
	st.assume(smtNot(smtEq(recv.Term, "0")))
	st.assume(smtOr(guards...))
	// union of the frames
	whole := false
	var targets []ModTarget
	for _, p := range preps {
		names := vc.contractNames(p.im.c, p.im.fn, sig, p.rv, args, nil)
		pre := &SpecScope{cur: oldSt, old: nil, names: names, pkg: pi, predPkg: p.im.c.Pkg, where: "dispatch " + p.im.c.Key}
		if !p.im.c.HasMod {
			whole = true
			continue
		}
		ts, wh, _ := vc.resolveMods(pre, p.im.c)
		if wh {
			whole = true
		}
		targets = append(targets, ts...)
	}
	if whole {
		vc.havocAllHeap(st)
		var ghost []ModTarget
		for _, t := range targets {
			if strings.HasPrefix(t.comp, "ghost:") {
				ghost = append(ghost, t)
			}
		}
		vc.havocTargets(st, ghost)
	} else {
		vc.havocAlloc(st)
		vc.havocTargets(st, targets)
	}
	results := vc.havocResults(st, m.Name(), sig)
	outer := smtAnd(vc.guards...)
	for _, p := range preps {
		names := vc.contractNames(p.im.c, p.im.fn, sig, p.rv, args, results)
		post := &SpecScope{cur: st, old: oldSt, names: names, pkg: pi, predPkg: p.im.c.Pkg, where: "dispatch " + p.im.c.Key}
		for _, e := range append(append([]Clause{}, p.im.c.Ensures...), p.im.c.Defines...) {
			t := vc.evalSpecBoolIn(post, e.Expr)
			st.assume(smtImp(smtAnd(outer, p.guard), t))
		}
	}
	vc.assumptions["dynamic dispatch of "+m.FullName()+": closed world - every implementation lives in the declaring package and is under contract"] = true
	return results, true
}

func shortKey(c *Contract) string {
	p := c.Pkg
	if i := strings.LastIndex(p, "/"); i >= 0 {
		p = p[i+1:]
	}
	return p + "." + c.Key
}

func (vc *VC) typeInvTerm(st *State, ti *TypeInv, v *Value) string {
	if vc.inTypeInv {
		return "true"
	}
	vc.inTypeInv = true
	defer func() { vc.inTypeInv = false }()
	pi := vc.w.Pkgs[ti.Pkg]
	sc := &SpecScope{cur: st, names: map[string]*Value{"self": v}, pkg: pi, where: "type invariant " + ti.Type}
	return vc.evalSpecBoolIn(sc, ti.Body)
}

func (vc *VC) vacuity(st *State, label string, pos token.Pos) {
	if vc.dry > 0 || vc.specMode > 0 {
		return
	}
	fam := vc.fname + "#vacuity." + label
	vc.oblCount[fam]++
	o := &Obligation{ID: fmt.Sprintf("%s@%d", fam, vc.oblCount[fam]), Family: fam, Kind: "vacuity", Func: vc.fname, Text: "assumptions are satisfiable at " + label,
		PC: append([]string(nil), st.pc...), Goal: "false", Vacuity: true}
	if pos.IsValid() {
		o.Pos = vc.w.pos(pos)
	}
	vc.obls = append(vc.obls, o)
}

// ---------------------------------------------------------------- intrinsics (variadic `any` functions)

func (vc *VC) intrinsic(st *State, call *ast.CallExpr, full string, sig *types.Signature, recv *Value, args []*Value) ([]*Value, bool) {
	errT := types.Universe.Lookup("error").Type()
	switch full {
	case "fmt.Errorf", "errors.New":
		e := vc.fresh("err", "Int")
		st.assume(smtNot(smtEq(e, "0")))
		vc.declareErrIs()
		vc.declareFun("isfresherr", "(Int) Bool")
		st.assume(app("isfresherr", e))
		// %w wrapping: errors.Is sees through to wrapped error arguments
		var wrapped []string
		if full == "fmt.Errorf" && len(call.Args) > 1 && !call.Ellipsis.IsValid() {
			for _, a := range call.Args[1:] {
				if T := vc.typeOf(a); T != nil && types.Identical(T, errT) {
					v := vc.evalExpr(st, a)
					wrapped = append(wrapped, v.Term)
				}
			}
		}
		vc.nbound++
		bn := fmt.Sprintf("t!%d", vc.nbound)
		alts := []string{smtEq(bn, e)}
		for _, w := range wrapped {
			alts = append(alts, app("errIs", w, bn))
		}
		st.assume("(forall ((" + bn + " Int)) (! (= (errIs " + e + " " + bn + ") " + smtOr(alts...) + ") :pattern ((errIs " + e + " " + bn + "))))")
		vc.assumptions["fmt.Errorf/errors.New return a fresh non-nil error; errors.Is sees through error-typed arguments (as with %w)"] = true
		return []*Value{intV(e, errT)}, true
	case "errors.Is":
		vc.declareErrIs()
		return []*Value{boolV(app("errIs", args[0].Term, args[1].Term))}, true
	case "fmt.Sprintf", "fmt.Sprint", "fmt.Sprintln":
		r := vc.fresh("sprintf", "Int")
		if full == "fmt.Sprintf" && !call.Ellipsis.IsValid() && len(call.Args) >= 1 {
			// ghost: the number of `?` placeholders is additive over the format and its string arguments
			// (non-string arguments are numbers / identifiers here and contribute none)
			sum := []string{app("qmarks", vc.evalExpr(st, call.Args[0]).Term)}
			for _, a := range call.Args[1:] {
				if T := vc.typeOf(a); T != nil && isString(T) {
					sum = append(sum, app("qmarks", vc.evalExpr(st, a).Term))
				}
			}
			t := sum[0]
			if len(sum) > 1 {
				t = app("+", sum...)
			}
			st.assume(smtEq(app("qmarks", r), t))
			if tv, ok := vc.curInfo.Types[call.Args[0]]; ok && tv.Value != nil && tv.Value.Kind() == constant.String {
				// ghost: the first word of the result is the first word of a constant format (when it holds no verb)
				vc.declareFun("sqlverb", "(Int) Int")
				st.assume(smtEq(app("sqlverb", r), fmt.Sprint(sqlVerbCode(constant.StringVal(tv.Value)))))
				vc.fmtOf[r] = constant.StringVal(tv.Value)
				vc.checkSQLTableArgs(st, call, constant.StringVal(tv.Value))
			}
			vc.assumptions["fmt.Sprintf: the number of `?` in the result is the sum over the format string and the string-typed arguments"] = true
		}
		return []*Value{intV(r, types.Typ[types.String])}, true
	case "fmt.Println", "fmt.Printf", "fmt.Print":
		return vc.havocResults(st, "print", sig), true
	}
	return nil, false
}

// ---------------------------------------------------------------- verifying one function against its contract

type FuncResult struct {
	Func         string
	Key          string
	Pkg          string
	Obls         []*Obligation
	OutOfSubset  string
	Uncontracted []string
	DepsUsed     []string
	Dropped      []string
	Assumptions  []string
	Callees      []string
	Contract     *Contract
	Paths        int
	Locals       []LocalDecl
	LoopHeaders  []string
}

func (w *World) verifyFunc(pi *PkgInfo, fd *ast.FuncDecl, c *Contract, mode string) (res *FuncResult) {
	vc := newVC(w, pi, fd, c)
	vc.mode = mode
	res = &FuncResult{Func: vc.fname, Key: funcKey(fd), Pkg: pi.Path, Contract: c}
	if fd != nil {
		res.Locals = localDecls(pi.P.TypesInfo, fd)
		res.LoopHeaders = loopPrints(fd)
	}
	defer func() {
		if r := recover(); r != nil {
			switch e := r.(type) {
			case unsupportedErr:
				p := ""
				if e.pos.IsValid() {
					p = w.pos(e.pos) + ": "
				}
				res.OutOfSubset = p + e.msg
			case specErr:
				res.OutOfSubset = "contract error: " + e.msg
			default:
				panic(r)
			}
		}
		res.Uncontracted = sortedKeys(vc.uncontracted)
		res.DepsUsed = sortedKeys(vc.depsUsed)
		res.Dropped = sortedKeys(vc.dropped)
		res.Assumptions = sortedKeys(vc.assumptions)
		res.Callees = sortedKeys(vc.calleesWithContract)
		res.Paths = vc.paths
		vc.aborted = res.OutOfSubset != ""
		vc.finishObligations()
		res.Obls = vc.obls
	}()
	vc.run()
	return res
}

func (vc *VC) run() {
	fd, pi, c := vc.fd, vc.pkg, vc.contract
	info := pi.P.TypesInfo
	vc.scanBoxed(fd.Body, info)
	vc.loopIndex = map[ast.Node]int{}
	ords := alignLoops(vc.fname, loopPrints(fd))
	ast.Inspect(fd.Body, func(n ast.Node) bool {
		switch n.(type) {
		case *ast.ForStmt, *ast.RangeStmt:
			k := len(vc.loopIndex)
			if k < len(ords) {
				vc.loopIndex[n] = ords[k]
				if ords[k] != k+1 {
					vc.depsUsed[fmt.Sprintf("loop %d of the function is taken for `loop %d` of the contract (same header as on the baseline tree; loops were inserted or removed)", k+1, ords[k])] = true
				}
			} else {
				vc.loopIndex[n] = k + 1
			}
		}
		return true
	})
	vc.callIndex = map[*ast.CallExpr]int{}
	callCount := map[string]int{}
	ast.Inspect(fd.Body, func(n ast.Node) bool {
		if ce, ok := n.(*ast.CallExpr); ok {
			if id := identOf(ce.Fun); id != nil {
				callCount[id.Name]++
				vc.callIndex[ce] = callCount[id.Name]
			}
		}
		return true
	})
	st := &State{env: map[types.Object]*Value{}, heap: map[string]string{}, alloc: "Alloc0", ghost: map[string]string{}}
	names := map[string]*Value{}
	bind := func(id *ast.Ident) {
		obj := info.Defs[id]
		if obj == nil || id.Name == "_" {
			return
		}
		v := vc.freshValue(st, "in_"+id.Name, obj.Type())
		names[id.Name] = v
		vc.recordInputs(id.Name, v)
		vc.recordPointees(st, id.Name, v, obj.Type())
		vc.bindParam(st, obj, v)
	}
	if fd.Recv != nil {
		for _, f := range fd.Recv.List {
			for _, id := range f.Names {
				bind(id)
				names["self"] = names[id.Name]
			}
		}
	}
	for _, f := range fd.Type.Params.List {
		for _, id := range f.Names {
			bind(id)
		}
	}
	fr := &inlineFrame{}
	if fd.Type.Results != nil {
		for _, f := range fd.Type.Results.List {
			T := info.TypeOf(f.Type)
			if len(f.Names) == 0 {
				fr.results = append(fr.results, nil)
				fr.types = append(fr.types, T)
				continue
			}
			for _, id := range f.Names {
				obj := info.Defs[id]
				fr.results = append(fr.results, obj)
				fr.types = append(fr.types, T)
				if obj != nil {
					vc.bindParam(st, obj, vc.zeroValue(T))
				}
			}
		}
	}
	vc.entry = st.clone()
	vc.entryVals = names
	if c != nil {
		pre := &SpecScope{cur: st, old: vc.entry, names: names, pkg: pi, where: vc.fname + " requires"}
		for _, r := range c.Requires {
			st.assume(vc.evalSpecBoolIn(pre, r.Expr))
		}
		// the entry snapshot sees the same assumptions
		vc.entry.pc = append([]string(nil), st.pc...)
		vc.entry.pcG = append([]bool(nil), st.pcG...)
	}
	vc.vacuity(st, "requires", fd.Pos())
	vc.retStack = append(vc.retStack, fr)
	outs := vc.execBlock(st, fd.Body.List)
	nret := 0
	for _, o := range outs {
		var rets []*Value
		switch o.kind {
		case oReturn:
			rets = o.rets
		case oNormal:
			for _, ro := range fr.results {
				if ro != nil {
					rets = append(rets, vc.evalIdentObj(o.st, ro))
				}
			}
			if len(rets) < len(fr.types) {
				continue // falling off the end of a function with results: unreachable (the compiler guarantees a terminating statement)
			}
		default:
			vc.unsupported(fd, "break/continue outside loop")
		}
		if len(o.st.defers) > 0 {
			rets = vc.runDefers(o.st, 0, fr, rets)
		}
		nret++
		pos := o.pos
		if !pos.IsValid() {
			pos = fd.Body.Rbrace
		}
		vc.checkPosts(o.st, rets, pos, names)
	}
}

// recordPointees: what a replay needs beyond the parameter values themselves - the scalar fields of a struct behind a
// pointer parameter and the first bytes of byte slices (as terms over the entry heap, evaluated in the model).
func (vc *VC) recordPointees(st *State, name string, v *Value, T types.Type) {
	defer func() { recover() }() // best effort: anything unusual just means "no replay"
	vc.specMode++
	defer func() { vc.specMode-- }()
	bytesOf := func(path string, s *Value) {
		if s == nil || s.K != VSlice {
			return
		}
		sl, ok := under(s.T).(*types.Slice)
		if !ok {
			return
		}
		if b, ok := under(sl.Elem()).(*types.Basic); !ok || b.Kind() != types.Uint8 {
			return
		}
		h := vc.heapGet(st, elemCompPrefix(sl.Elem()), sortAt("Int", 2))
		for i := 0; i < 32; i++ {
			vc.inputs = append(vc.inputs, InputSym{Name: fmt.Sprintf("%s[%d]", path, i), Term: sel2(h, s.Arr, app("+", s.Off, fmt.Sprint(i)))})
		}
	}
	strOf := func(path string, s *Value, ST types.Type) {
		if s == nil || s.K != VInt || ST == nil || !isString(ST) {
			return
		}
		vc.inputs = append(vc.inputs, InputSym{Name: path + "#strlen", Term: app("strlen", s.Term)})
		for i := 0; i < 32; i++ {
			vc.inputs = append(vc.inputs, InputSym{Name: fmt.Sprintf("%s#str[%d]", path, i), Term: app("strat", s.Term, fmt.Sprint(i))})
		}
	}
	switch u := under(T).(type) {
	case *types.Basic:
		strOf(name, v, T)
	case *types.Slice:
		bytesOf(name, v)
	case *types.Pointer:
		if _, ok := under(u.Elem()).(*types.Struct); !ok {
			return
		}
		pv := vc.load(st, vc.derefLoc(v.Term, u.Elem()))
		pv.leaves(name+"->", func(path string, leaf *Value, isBool bool) {
			vc.inputs = append(vc.inputs, InputSym{Name: path, Term: leaf.Term})
		})
		if pv.K == VStruct {
			st2, _ := under(u.Elem()).(*types.Struct)
			for i, fn := range pv.FOrder {
				bytesOf(name+"->."+fn, pv.Fields[fn])
				if st2 != nil && i < st2.NumFields() {
					strOf(name+"->."+fn, pv.Fields[fn], st2.Field(i).Type())
				}
			}
		}
	case *types.Struct:
		if v.K == VStruct {
			for i, fn := range v.FOrder {
				bytesOf(name+"."+fn, v.Fields[fn])
				if i < u.NumFields() {
					strOf(name+"."+fn, v.Fields[fn], u.Field(i).Type())
				}
			}
		}
	}
}

func (vc *VC) recordInputs(name string, v *Value) {
	v.leaves(name, func(path string, leaf *Value, isBool bool) {
		vc.inputs = append(vc.inputs, InputSym{Name: path, Term: leaf.Term})
	})
}

func (vc *VC) checkPosts(st *State, rets []*Value, pos token.Pos, entryNames map[string]*Value) {
	c := vc.contract
	if c == nil {
		return
	}
	if vc.oblCount[vc.fname+"#vacuity.exit"] < 8 {
		vc.vacuity(st, "exit", pos)
	}
	names := map[string]*Value{}
	for k, v := range entryNames {
		names[k] = v
	}
	osig := vc.fobj.Type().(*types.Signature)
	for i, r := range rets {
		n := ""
		if i < osig.Results().Len() {
			n = osig.Results().At(i).Name()
		}
		if i < len(c.Results) {
			n = c.Results[i]
		}
		if n != "" && n != "_" {
			names[n] = r
		}
		names[fmt.Sprintf("result%d", i)] = r
	}
	if len(rets) == 1 {
		names["result"] = rets[0]
	}
	sc := &SpecScope{cur: st, old: vc.entry, names: names, pkg: vc.pkg, where: vc.fname + " ensures"}
	for _, e := range c.Ensures {
		t := vc.evalSpecBoolIn(sc, e.Expr)
		vc.oblige(st, "post", e.Label, "ensures "+e.Text, pos, t)
	}
	if c.HasMod {
		vc.checkFrame(st, pos, entryNames)
	}
}

// checkFrame: every heap component that differs from its entry value must be covered by the modifies
// clause; objects allocated during the call are exempt.
func (vc *VC) checkFrame(st *State, pos token.Pos, entryNames map[string]*Value) {
	whole, goals := vc.frameGoals(st, nil)
	if whole {
		return
	}
	if st.epoch != 0 {
		vc.oblige(st, "frame", "heap", "the whole heap may have changed (call without contract) but modifies does not say `heap`", pos, "false")
		return
	}
	for _, comp := range sortedKeys(goals) {
		vc.oblige(st, "frame", mangle(comp), "modifies: "+comp+" changed only where allowed", pos, goals[comp])
	}
}

// frameGoals: for every heap component of st that differs from its entry value (restricted to `only` when
// non-nil), the statement that cells of objects allocated at function entry and not named by the modifies
// clause are unchanged.
func (vc *VC) frameGoals(st *State, only map[string]bool) (whole bool, goals map[string]string) {
	c := vc.contract
	goals = map[string]string{}
	if vc.frameTargets == nil {
		sc := &SpecScope{cur: vc.entry, old: vc.entry, names: vc.entryVals, pkg: vc.pkg, where: vc.fname + " modifies"}
		targets, wh, _ := vc.resolveMods(sc, c)
		vc.frameWhole = wh
		vc.frameTargets = map[string][]string{}
		for _, t := range targets {
			vc.frameTargets[t.comp] = append(vc.frameTargets[t.comp], t.idx)
		}
	}
	if vc.frameWhole {
		return true, goals
	}
	allowed := vc.frameTargets
	for _, comp := range sortedKeys(st.heap) {
		if only != nil && !only[comp] {
			continue
		}
		cur := st.heap[comp]
		init := vc.initialSymEpoch(comp, 0)
		if cur == init || strings.HasPrefix(comp, "*") {
			continue
		}
		srt := vc.compSort[comp]
		lvl := strings.Count(srt, "(Array")
		if strings.HasPrefix(comp, "global:") {
			lvl = 0
		}
		vc.declare(init, srt)
		var goal string
		switch {
		case lvl == 0:
			if _, ok := allowed[comp]; ok {
				continue
			}
			goal = smtEq(cur, init)
		default:
			whole := false
			for _, ix := range allowed[comp] {
				if ix == "*" {
					whole = true
				}
			}
			if whole {
				continue // the whole component is named by modifies (comp(T.f) / allelems(T))
			}
			bn := "r!f"
			var ex []string
			for _, ix := range allowed[comp] {
				ex = append(ex, smtNot(smtEq(bn, ix)))
			}
			cond := smtAnd(append([]string{sel("Alloc0", bn)}, ex...)...)
			if lvl == 2 {
				goal = "(forall ((" + bn + " Int) (i!f Int)) (! (=> " + cond + " (= (select " + cur + " (pr " + bn + " i!f)) (select " + init + " (pr " + bn + " i!f)))) :pattern ((select " + cur + " (pr " + bn + " i!f))) :qid frame))"
			} else {
				goal = "(forall ((" + bn + " Int)) (! (=> " + cond + " (= (select " + cur + " " + bn + ") (select " + init + " " + bn + "))) :pattern ((select " + cur + " " + bn + ")) :qid frame))"
			}
		}
		goals[comp] = goal
	}
	return false, goals
}

func (vc *VC) initialSymEpoch(comp string, epoch int) string {
	return fmt.Sprintf("H_%s_e%d", mangle(comp), epoch)
}

func (vc *VC) initialSym(st *State, comp string) string {
	return vc.initialSymEpoch(comp, st.epoch)
}

// finishObligations attaches declarations/axioms to every obligation (after the run, when all are known).
var sqlVerbRx = regexp.MustCompile(`%(\[(\d+)\])?[vdsq]`)

// checkSQLTableArgs: in a constant SQL format the value substituted right after FROM / INTO / UPDATE / JOIN / TABLE
// names a table: the argument must be a table-name constant or a call of a ...TableName function (obligation kind
// `sqltable`, syntactic). Catches a column constant handed in where the table belongs.
func (vc *VC) checkSQLTableArgs(st *State, call *ast.CallExpr, format string) {
	if sqlVerbCode(format) == 0 || vc.inlineDepth > 0 {
		return
	}
	next := 1
	for _, m := range sqlVerbRx.FindAllStringSubmatchIndex(format, -1) {
		argn := next
		if m[4] >= 0 {
			if n, err := strconv.Atoi(format[m[4]:m[5]]); err == nil {
				argn = n
			}
		}
		next = argn + 1
		before := strings.TrimRight(format[:m[0]], " `\t\n(")
		i := strings.LastIndexAny(before, " \t\n(")
		word := strings.ToUpper(before[i+1:])
		switch word {
		case "FROM", "INTO", "UPDATE", "JOIN", "TABLE", "EXISTS":
		default:
			continue
		}
		if argn >= len(call.Args) {
			continue
		}
		a := call.Args[argn]
		name := ""
		switch x := a.(type) {
		case *ast.Ident:
			name = x.Name
		case *ast.SelectorExpr:
			name = x.Sel.Name
		case *ast.CallExpr:
			if id := identOf(x.Fun); id != nil {
				name = id.Name
			}
		}
		ok := strings.HasSuffix(name, "TableName") || strings.HasSuffix(name, "Table") || strings.HasPrefix(name, "tableName") || strings.HasPrefix(name, "table")
		if !ok {
			// a local variable holding a table name: accept when it was built by a ...TableName call is not tracked;
			// only package-level constants and calls are judged
			if id, isId := a.(*ast.Ident); isId {
				if _, isVar := vc.curInfo.ObjectOf(id).(*types.Var); isVar && !vc.isGlobal(vc.curInfo.ObjectOf(id).(*types.Var)) {
					continue
				}
			}
			vc.oblige(st, "sqltable", "", fmt.Sprintf("argument %d of the statement text (after %s) must name a table, got %s", argn, word, vc.nodeText(a)), a.Pos(), "false")
		} else {
			vc.oblige(st, "sqltable", "", fmt.Sprintf("argument %d of the statement text (after %s) names a table: %s", argn, word, vc.nodeText(a)), a.Pos(), "true")
		}
	}
}

// sqlVerbCode: the SQL statement kind a text starts with (0: none / not a constant word).
func sqlVerbCode(s string) int {
	w := strings.TrimLeft(s, " \t\n")
	if i := strings.IndexAny(w, " \t\n("); i >= 0 {
		w = w[:i]
	}
	switch strings.ToUpper(w) {
	case "SELECT":
		return 1
	case "INSERT":
		return 2
	case "UPDATE":
		return 3
	case "DELETE":
		return 4
	case "CREATE":
		return 5
	case "DROP":
		return 6
	case "ALTER":
		return 7
	case "PRAGMA":
		return 8
	}
	return 0
}

func (vc *VC) finishObligations() {
	for _, ia := range vc.ifaceAsserts {
		it, ok := under(ia.T).(*types.Interface)
		if !ok {
			continue
		}
		for _, tag := range sortedKeys(vc.typeTagT) {
			CT := vc.typeTagT[tag]
			if isInterface(CT) {
				continue
			}
			is := smtAnd(smtNot(smtEq(ia.val, "0")), smtEq(app("typeof", ia.val), tag))
			if types.Implements(CT, it) {
				vc.addAxiom(smtImp(is, ia.ok))
			} else {
				vc.addAxiom(smtImp(is, smtNot(ia.ok)))
			}
		}
	}
	if _, ok := vc.decls["sqlverb"]; ok {
		for _, lit := range sortedKeys(vc.strlits) {
			vc.addAxiom(smtEq(app("sqlverb", vc.strlits[lit]), fmt.Sprint(sqlVerbCode(lit))))
		}
	}
	// (when the run was aborted - the function left the subset or the contract no longer resolves - calls were not
	// reached for that reason: the #subset obligation reports the function as undecided)
	if vc.contract != nil && !vc.aborted {
		for _, ca := range vc.contract.CallAsserts {
			if !vc.callAssertSeen[fmt.Sprintf("%s %d %s", ca.Callee, ca.Ord, ca.Clause.Label)] {
				// the call the assertion is anchored at does not exist (any more): the assertion cannot be established
				kind := "callsite"
				if ca.Closure {
					kind = "closure"
				}
				o := &Obligation{ID: fmt.Sprintf("%s#%s.%s%d.%s@0", vc.fname, kind, ca.Callee, ca.Ord, ca.Clause.Label), Family: fmt.Sprintf("%s#%s.%s%d.%s", vc.fname, kind, ca.Callee, ca.Ord, ca.Clause.Label),
					Kind: kind, Func: vc.fname, Text: "callsite " + ca.Callee + " " + fmt.Sprint(ca.Ord) + ": no such call is reached", Goal: "false"}
				vc.obls = append(vc.obls, o)
			}
		}
	}
	ax := append([]string(nil), vc.axioms...)
	var distinct [][]string
	if len(vc.strlits) > 1 {
		var ns []string
		for _, k := range sortedKeys(vc.strlits) {
			ns = append(ns, vc.strlits[k])
		}
		distinct = append(distinct, ns)
	}
	if len(vc.sentinels) > 0 {
		names := sortedKeys(vc.sentinels)
		for _, n := range names {
			ax = append(ax, smtNot(smtEq(n, "0")))
		}
		distinct = append(distinct, names)
		if vc.decls["isfresherr"] != "" {
			for _, n := range names {
				ax = append(ax, smtNot(app("isfresherr", n)))
			}
		}
		if vc.decls["errIs"] != "" {
			// sentinel errors do not wrap anything: Is(sentinel, t) iff t == sentinel
			for _, n := range names {
				ax = append(ax, "(forall ((t Int)) (! (= (errIs "+n+" t) (= t "+n+")) :pattern ((errIs "+n+" t))))")
			}
		}
	}
	for _, o := range vc.obls {
		o.DeclMap = vc.decls
		o.DeclOrder = vc.declOrder
		o.Axioms = ax
		o.AxiomKeys = vc.axiomKeys
		o.Distinct = distinct
		o.Inputs = vc.inputs
	}
}

// checkCallback verifies the body of a closure literal passed as a callback: heap arbitrary, parameters arbitrary
// values satisfying the declared condition; the resulting states are discarded (only obligations are kept).
func (vc *VC) checkCallback(st *State, fn *FuncVal, cb CallbackSpec, pi *PkgInfo, c *Contract) (ghostChanged []string) {
	if vc.specMode > 0 {
		return nil
	}
	work := st.clone()
	if !cb.Immediate {
		vc.havocAllHeap(work)
	}
	if fn.Env != nil {
		for o, v := range fn.Env.env {
			if _, ok := work.env[o]; !ok {
				work.env[o] = v
			}
		}
	}
	info := fn.Pkg.P.TypesInfo
	sig, _ := info.TypeOf(fn.Lit).(*types.Signature)
	if sig == nil {
		return nil
	}
	var args []*Value
	names := map[string]*Value{}
	for i := 0; i < sig.Params().Len(); i++ {
		a := vc.freshValue(work, fmt.Sprintf("cb_arg%d", i+1), sig.Params().At(i).Type())
		args = append(args, a)
		names[fmt.Sprintf("_%d", i+1)] = a
	}
	if cb.Cond != nil {
		sc := &SpecScope{cur: work, names: names, pkg: pi, predPkg: c.Pkg, where: "callback " + cb.Param}
		work.assume(vc.evalSpecBoolIn(sc, cb.Cond))
	}
	savedGuards := vc.guards
	vc.guards = nil
	before := map[string]string{}
	for comp, t := range work.heap {
		before[comp] = t
	}
	vc.inlineCall(work, fn.Lit, fn.Pkg, fn.Lit.Type, fn.Lit.Body, nil, sig, nil, args, nil)
	vc.guards = savedGuards
	for comp, t := range work.heap {
		if strings.HasPrefix(comp, "ghost:") && before[comp] != t {
			if _, had := before[comp]; !had && t == vc.initialSym(work, comp) {
				continue // only read
			}
			ghostChanged = append(ghostChanged, comp)
		}
	}
	return ghostChanged
}

package main

import (
	"fmt"
	"go/ast"
	"go/token"
	"go/types"
	"sort"
	"strings"
)

func countLoops(fd *ast.FuncDecl) int {
	n := 0
	if fd.Body == nil {
		return 0
	}
	ast.Inspect(fd.Body, func(nd ast.Node) bool {
		switch nd.(type) {
		case *ast.ForStmt, *ast.RangeStmt:
			n++
		}
		return true
	})
	return n
}

// checkFrames decides the syntactic declarations
//
//	frame Type.field: f1, f2    only the listed functions of the package may assign the field
//	callers pkg.Func: f1, f2    only the listed functions (pkgshort.Key) may call Func
//
// over the whole loaded module. Each declaration yields one obligation.
// immutable: the field components declared `frame T.f: none` (never assigned after construction).
func (w *World) immutable() []string {
	if w.immutableKeys != nil {
		return w.immutableKeys
	}
	w.immutableKeys = []string{}
	for _, fd := range w.Frames {
		if fd.IsCall || fd.IsArg || fd.IsErrKind {
			continue
		}
		if len(fd.Funcs) == 0 || (len(fd.Funcs) == 1 && strings.HasSuffix(fd.Funcs[0], "none")) {
			if fd.IsElems {
				if T := w.elemsType(fd); T != nil {
					w.immutableKeys = append(w.immutableKeys, elemCompPrefix(T))
				}
				continue
			}
			w.immutableKeys = append(w.immutableKeys, fd.Pkg+"."+fd.Comp)
		}
	}
	return w.immutableKeys
}

// elemsType resolves the element type named by a frameelems declaration.
func (w *World) elemsType(fd *FrameDecl) types.Type {
	pi := w.Pkgs[fd.Pkg]
	if pi == nil {
		return nil
	}
	o := pi.P.Types.Scope().Lookup(strings.TrimPrefix(fd.Comp, "*"))
	if o == nil {
		return nil
	}
	T := o.Type()
	if strings.HasPrefix(fd.Comp, "*") {
		T = types.NewPointer(T)
	}
	return T
}

// elemWriters: functions of the module that assign an element of a slice of the declared element type in place.
func (w *World) elemWriters(fd *FrameDecl) []string {
	T := w.elemsType(fd)
	if T == nil {
		return []string{"!type " + fd.Comp + " no longer exists"}
	}
	var offenders []string
	for _, p := range w.Pkgs {
		info := p.P.TypesInfo
		isElem := func(e ast.Expr) bool {
			ix, ok := ast.Unparen(e).(*ast.IndexExpr)
			if !ok {
				return false
			}
			st, ok := under(info.TypeOf(ix.X)).(*types.Slice)
			return ok && types.Identical(st.Elem(), T)
		}
		for _, file := range p.P.Syntax {
			for _, d := range file.Decls {
				fn, ok := d.(*ast.FuncDecl)
				if !ok || fn.Body == nil {
					continue
				}
				hit := false
				ast.Inspect(fn.Body, func(n ast.Node) bool {
					switch x := n.(type) {
					case *ast.AssignStmt:
						for _, l := range x.Lhs {
							if isElem(l) {
								hit = true
							}
						}
					case *ast.IncDecStmt:
						if isElem(x.X) {
							hit = true
						}
					case *ast.CallExpr:
						if id, ok := x.Fun.(*ast.Ident); ok && id.Name == "copy" && len(x.Args) == 2 {
							if st, ok := under(info.TypeOf(x.Args[0])).(*types.Slice); ok && types.Identical(st.Elem(), T) {
								hit = true
							}
						}
					case *ast.UnaryExpr:
						if x.Op == token.AND && isElem(x.X) {
							hit = true
						}
					}
					return true
				})
				if hit {
					offenders = append(offenders, shortPkg(p.Path)+"."+funcKey(fn)+" ("+w.pos(fn.Pos())+")")
				}
			}
		}
	}
	sort.Strings(offenders)
	return offenders
}

func (w *World) checkFrames(prop string) []*Obligation {
	var out []*Obligation
	for _, fd := range w.Frames {
		if !hasProp(fd.Props, prop) {
			continue
		}
		kind := "frame"
		if fd.IsCall {
			kind = "callers"
		}
		if fd.IsArg {
			kind = "argpolicy"
		}
		if fd.IsElems {
			kind = "frameelems"
		}
		if fd.IsErrKind {
			kind = "errorkind"
		}
		fam := shortPkg(fd.Pkg) + "." + fd.Comp + "#" + kind
		o := &Obligation{ID: fam + "@1", Family: fam, Kind: kind, Func: shortPkg(fd.Pkg) + "." + fd.Comp, Goal: "true", Backend: "syntactic",
			Text: fmt.Sprintf("%s %s: %s", kind, fd.Comp, strings.Join(fd.Funcs, ", "))}
		allowed := map[string]bool{}
		for _, f := range fd.Funcs {
			allowed[f] = true
		}
		var offenders []string
		if fd.IsErrKind {
			offenders = w.bareErrorReturns(fd, allowed)
		} else if fd.IsArg {
			offenders = w.argOffenders(fd, allowed)
		} else if fd.IsElems {
			offenders = w.elemWriters(fd)
		} else if fd.IsCall {
			offenders = w.callersOutside(fd, allowed)
		} else {
			offenders = w.writersOutside(fd, allowed)
		}
		if offenders == nil {
			o.Status = "discharged"
		} else if len(offenders) == 1 && strings.HasPrefix(offenders[0], "!") {
			o.Status = "unknown"
			o.Text += " -- " + offenders[0][1:]
		} else {
			o.Status = "refuted"
			o.Text += " -- violated by " + strings.Join(offenders, ", ")
		}
		out = append(out, o)
	}
	return out
}

func (w *World) writersOutside(fd *FrameDecl, allowed map[string]bool) []string {
	pi := w.Pkgs[fd.Pkg]
	if pi == nil {
		return []string{"!package " + fd.Pkg + " not loaded"}
	}
	parts := strings.SplitN(fd.Comp, ".", 2)
	if len(parts) != 2 {
		return []string{"!bad frame component " + fd.Comp}
	}
	tobj := pi.P.Types.Scope().Lookup(parts[0])
	if tobj == nil {
		return []string{"!type " + parts[0] + " no longer exists"}
	}
	st, ok := tobj.Type().Underlying().(*types.Struct)
	if !ok {
		return []string{"!" + parts[0] + " is not a struct"}
	}
	var field *types.Var
	for i := 0; i < st.NumFields(); i++ {
		if st.Field(i).Name() == parts[1] {
			field = st.Field(i)
		}
	}
	if field == nil {
		return []string{"!field " + fd.Comp + " no longer exists"}
	}
	var offenders []string
	// the field may be written from any package of the module only if exported; scan all loaded packages
	for _, p := range w.Pkgs {
		info := p.P.TypesInfo
		for _, file := range p.P.Syntax {
			for _, d := range file.Decls {
				fn, ok := d.(*ast.FuncDecl)
				if !ok || fn.Body == nil {
					continue
				}
				key := funcKey(fn)
				if p.Path != fd.Pkg {
					key = shortPkg(p.Path) + "." + key
				}
				isField := func(e ast.Expr) bool {
					for {
						switch x := ast.Unparen(e).(type) {
						case *ast.IndexExpr: // x.f[k] = v writes the map/slice held by the field
							e = x.X
							continue
						case *ast.SelectorExpr:
							if s := info.Selections[x]; s != nil && s.Obj() == field {
								return true
							}
							return false
						}
						return false
					}
				}
				hit := false
				ast.Inspect(fn.Body, func(n ast.Node) bool {
					switch x := n.(type) {
					case *ast.AssignStmt:
						for _, l := range x.Lhs {
							if isField(l) {
								hit = true
							}
						}
					case *ast.IncDecStmt:
						if isField(x.X) {
							hit = true
						}
					case *ast.UnaryExpr:
						if x.Op.String() == "&" && isField(x.X) {
							hit = true
						}
					case *ast.CallExpr:
						if id, ok := x.Fun.(*ast.Ident); ok && (id.Name == "delete" || id.Name == "clear") && len(x.Args) > 0 && isField(x.Args[0]) {
							if _, isB := info.Uses[id].(*types.Builtin); isB {
								hit = true
							}
						}
					}
					return true
				})
				if hit && !allowed[key] {
					offenders = append(offenders, key+" ("+w.pos(fn.Pos())+")")
				}
			}
		}
	}
	return offenders
}

func (w *World) callersOutside(fd *FrameDecl, allowed map[string]bool) []string {
	// fd.Comp: Func or Type.Method of package fd.Pkg
	pi := w.Pkgs[fd.Pkg]
	if pi == nil {
		return []string{"!package " + fd.Pkg + " not loaded"}
	}
	target := pi.Funcs[fd.Comp]
	var tobj types.Object
	if target != nil {
		tobj = pi.P.TypesInfo.Defs[target.Name]
	} else {
		parts := strings.SplitN(fd.Comp, ".", 2)
		if len(parts) == 2 {
			if tn := pi.P.Types.Scope().Lookup(parts[0]); tn != nil {
				if it, ok := tn.Type().Underlying().(*types.Interface); ok {
					for i := 0; i < it.NumMethods(); i++ {
						if it.Method(i).Name() == parts[1] {
							tobj = it.Method(i)
						}
					}
				}
			}
		}
	}
	if tobj == nil {
		return []string{"!function " + fd.Comp + " no longer exists"}
	}
	var offenders []string
	for _, p := range w.Pkgs {
		info := p.P.TypesInfo
		for _, file := range p.P.Syntax {
			for _, d := range file.Decls {
				fn, ok := d.(*ast.FuncDecl)
				if !ok || fn.Body == nil {
					continue
				}
				key := shortPkg(p.Path) + "." + funcKey(fn)
				hit := false
				ast.Inspect(fn.Body, func(n ast.Node) bool {
					if id, ok := n.(*ast.Ident); ok {
						if u := info.Uses[id]; u != nil {
							if f, ok := u.(*types.Func); ok && f.Origin() == tobj {
								hit = true
							}
						}
					}
					return true
				})
				if hit && !allowed[key] && !allowed[funcKey(fn)] {
					offenders = append(offenders, key+" ("+w.pos(fn.Pos())+")")
				}
			}
		}
	}
	return offenders
}

// checkImpls: behavioural subtyping for interface-method contracts. Every type of the module that implements
// the interface must carry, for that method, a contract that (textually) assumes no more (its requires are among
// the interface's) and guarantees no less (the interface's ensures and modifies are among its own).
func (w *World) checkImpls(prop string) []*Obligation {
	var out []*Obligation
	for _, key := range sortedKeys(w.Contracts) {
		c := w.Contracts[key]
		if !hasProp(c.Props, prop) || c.Abstract {
			continue
		}
		parts := strings.SplitN(c.Key, ".", 2)
		if len(parts) != 2 {
			continue
		}
		pi := w.Pkgs[c.Pkg]
		if pi == nil {
			continue
		}
		tobj := pi.P.Types.Scope().Lookup(parts[0])
		if tobj == nil {
			continue
		}
		iface, ok := tobj.Type().Underlying().(*types.Interface)
		if !ok {
			continue
		}
		for _, p := range w.Pkgs {
			scope := p.P.Types.Scope()
			for _, name := range scope.Names() {
				tn, ok := scope.Lookup(name).(*types.TypeName)
				if !ok || tn.IsAlias() {
					continue
				}
				T := tn.Type()
				if _, isI := T.Underlying().(*types.Interface); isI {
					continue
				}
				if !types.Implements(T, iface) && !types.Implements(types.NewPointer(T), iface) {
					continue
				}
				fam := shortPkg(p.Path) + "." + name + "." + parts[1] + "#impl." + parts[0]
				o := &Obligation{ID: fam + "@1", Family: fam, Kind: "impl", Func: shortPkg(p.Path) + "." + name + "." + parts[1], Goal: "true", Backend: "syntactic",
					Text: "contract of " + name + "." + parts[1] + " refines the contract of interface method " + c.Key}
				ic := w.Contracts[p.Path+"::"+name+"."+parts[1]]
				switch {
				case ic == nil:
					o.Status = "unknown"
					o.Text += " -- implementation has no contract"
				default:
					var missing []string
					have := map[string]bool{}
					for _, e := range ic.Ensures {
						have["E:"+e.Text] = true
					}
					for _, m := range ic.Modifies {
						have["M:"+m.Text] = true
					}
					for _, e := range c.Ensures {
						if !have["E:"+e.Text] {
							missing = append(missing, "ensures "+e.Text)
						}
					}
					imods := map[string]bool{}
					for _, m := range c.Modifies {
						imods[m.Text] = true
					}
					for _, m := range ic.Modifies {
						if !imods[m.Text] {
							missing = append(missing, "modifies "+m.Text+" (not allowed by the interface contract)")
						}
					}
					ireq := map[string]bool{}
					for _, r := range c.Requires {
						ireq[r.Text] = true
					}
					for _, r := range ic.Requires {
						if !ireq[r.Text] && !strings.Contains(r.Text, "!= nil") {
							missing = append(missing, "requires "+r.Text+" (not guaranteed by callers through the interface)")
						}
					}
					if len(missing) == 0 {
						o.Status = "discharged"
					} else {
						o.Status = "refuted"
						o.Text += " -- " + strings.Join(missing, "; ")
					}
				}
				out = append(out, o)
			}
		}
	}
	return out
}

// checkRecursion: call-graph cycles among the functions under contract for this property. Calls are verified
// against contracts, so a cycle is invisible to the per-function proofs: unless the cycle threads an explicit
// depth bound (contract clause `recursion <bound>`, itself proved), input-driven recursion is unbounded and
// can exhaust the goroutine stack (a fatal, unrecoverable error in Go).
func (w *World) checkRecursion(prop string) []*Obligation {
	type node struct {
		key  string
		pi   *PkgInfo
		fd   *ast.FuncDecl
		c    *Contract
		outs []string
	}
	nodes := map[string]*node{}
	objKey := map[*types.Func]string{}
	for _, key := range sortedKeys(w.Contracts) {
		c := w.Contracts[key]
		if c.Trusted || !hasProp(c.Props, prop) {
			continue
		}
		pi := w.Pkgs[c.Pkg]
		if pi == nil || pi.Funcs[c.Key] == nil {
			continue
		}
		fd := pi.Funcs[c.Key]
		nodes[key] = &node{key: key, pi: pi, fd: fd, c: c}
		if obj, ok := pi.P.TypesInfo.Defs[fd.Name].(*types.Func); ok {
			objKey[obj] = key
		}
	}
	for _, n := range nodes {
		seen := map[string]bool{}
		ast.Inspect(n.fd.Body, func(x ast.Node) bool {
			id, ok := x.(*ast.Ident)
			if !ok {
				return true
			}
			if f, ok := n.pi.P.TypesInfo.Uses[id].(*types.Func); ok {
				if k, ok := objKey[f.Origin()]; ok && !seen[k] {
					seen[k] = true
					n.outs = append(n.outs, k)
				}
			}
			return true
		})
		sort.Strings(n.outs)
	}
	// Tarjan SCC
	index := 0
	idx := map[string]int{}
	low := map[string]int{}
	on := map[string]bool{}
	var stack []string
	var sccs [][]string
	var strong func(v string)
	strong = func(v string) {
		idx[v], low[v] = index, index
		index++
		stack = append(stack, v)
		on[v] = true
		for _, wk := range nodes[v].outs {
			if _, ok := idx[wk]; !ok {
				strong(wk)
				if low[wk] < low[v] {
					low[v] = low[wk]
				}
			} else if on[wk] && idx[wk] < low[v] {
				low[v] = idx[wk]
			}
		}
		if low[v] == idx[v] {
			var comp []string
			for {
				x := stack[len(stack)-1]
				stack = stack[:len(stack)-1]
				on[x] = false
				comp = append(comp, x)
				if x == v {
					break
				}
			}
			sccs = append(sccs, comp)
		}
	}
	for _, k := range sortedKeys(nodes) {
		if _, ok := idx[k]; !ok {
			strong(k)
		}
	}
	var out []*Obligation
	for _, comp := range sccs {
		cyclic := len(comp) > 1
		if !cyclic {
			for _, o := range nodes[comp[0]].outs {
				if o == comp[0] {
					cyclic = true
				}
			}
		}
		if !cyclic {
			continue
		}
		sort.Strings(comp)
		bounded := false
		var names []string
		for _, k := range comp {
			n := nodes[k]
			names = append(names, shortPkg(n.c.Pkg)+"."+n.c.Key)
			if n.c.Depth != "" {
				bounded = true
			}
		}
		allMeasured := true
		for _, k := range comp {
			if nodes[k].c.RecDec == nil {
				allMeasured = false
			}
		}
		if allMeasured {
			// every function of the cycle declares a measure (and a rank): the `variant.recursion` obligations at the
			// calls between them decide it
			continue
		}
		fam := names[0] + "#recursion"
		o := &Obligation{ID: fam + "@1", Family: fam, Kind: "recursion", Func: names[0], Goal: "false", Backend: "syntactic",
			Text: "input-driven recursion without a depth bound: " + strings.Join(names, " <-> ")}
		if bounded {
			o.Status = "unknown"
			o.Text += " (a `recursion` bound is declared but bounded-depth proofs are not implemented)"
		} else {
			o.Status = "refuted"
		}
		out = append(out, o)
	}
	return out
}

// argOffenders: calls of fd.Comp (function or method of package fd.Pkg) whose argument number ArgIndex is not the
// literal ArgLit, made from functions outside the allow-list.
func (w *World) argOffenders(fd *FrameDecl, allowed map[string]bool) []string {
	pi := w.Pkgs[fd.Pkg]
	if pi == nil {
		return []string{"!package " + fd.Pkg + " not loaded"}
	}
	target := pi.Funcs[fd.Comp]
	var tobj types.Object
	if target != nil {
		tobj = pi.P.TypesInfo.Defs[target.Name]
	} else {
		// interface method Type.Method
		parts := strings.SplitN(fd.Comp, ".", 2)
		if len(parts) == 2 {
			if tn := pi.P.Types.Scope().Lookup(parts[0]); tn != nil {
				if it, ok := tn.Type().Underlying().(*types.Interface); ok {
					for i := 0; i < it.NumMethods(); i++ {
						if it.Method(i).Name() == parts[1] {
							tobj = it.Method(i)
						}
					}
				}
			}
		}
	}
	if tobj == nil {
		return []string{"!function " + fd.Comp + " no longer exists"}
	}
	var offenders []string
	for _, p := range w.Pkgs {
		info := p.P.TypesInfo
		for _, file := range p.P.Syntax {
			for _, d := range file.Decls {
				fn, ok := d.(*ast.FuncDecl)
				if !ok || fn.Body == nil {
					continue
				}
				key := shortPkg(p.Path) + "." + funcKey(fn)
				if allowed[key] || (p.Path == fd.Pkg && allowed[funcKey(fn)]) {
					continue
				}
				ast.Inspect(fn.Body, func(n ast.Node) bool {
					call, ok := n.(*ast.CallExpr)
					if !ok {
						return true
					}
					id := identOf(ast.Unparen(call.Fun))
					if id == nil {
						return true
					}
					f, ok := info.Uses[id].(*types.Func)
					if !ok || f.Origin() != tobj {
						return true
					}
					if fd.ArgIndex >= len(call.Args) {
						offenders = append(offenders, key+" ("+w.pos(call.Pos())+": too few arguments)")
						return true
					}
					arg := ast.Unparen(call.Args[fd.ArgIndex])
					if lit, ok := arg.(*ast.Ident); ok && lit.Name == fd.ArgLit {
						if _, isConst := info.Uses[lit].(*types.Const); isConst || lit.Name == "nil" {
							return true
						}
					}
					if bl, ok := arg.(*ast.BasicLit); ok && bl.Value == fd.ArgLit {
						return true
					}
					offenders = append(offenders, key+" ("+w.pos(call.Pos())+")")
					return true
				})
			}
		}
	}
	return offenders
}

// bareErrorReturns: functions of the package (test files excepted) with a return statement one of whose operands is
// a direct call of errors.New, or of fmt.Errorf with a format that wraps nothing (%w absent or not a literal).
func (w *World) bareErrorReturns(fd *FrameDecl, allowed map[string]bool) []string {
	pi := w.Pkgs[fd.Pkg]
	if pi == nil {
		return []string{"!package " + fd.Pkg + " not loaded"}
	}
	info := pi.P.TypesInfo
	seen := map[string]bool{}
	var offenders []string
	for _, file := range pi.P.Syntax {
		if strings.HasSuffix(w.Fset.Position(file.Pos()).Filename, "_test.go") {
			continue
		}
		for _, d := range file.Decls {
			fn, ok := d.(*ast.FuncDecl)
			if !ok || fn.Body == nil {
				continue
			}
			ast.Inspect(fn.Body, func(n ast.Node) bool {
				rs, ok := n.(*ast.ReturnStmt)
				if !ok {
					return true
				}
				for _, r := range rs.Results {
					call, ok := ast.Unparen(r).(*ast.CallExpr)
					if !ok {
						continue
					}
					sel, ok := call.Fun.(*ast.SelectorExpr)
					if !ok {
						continue
					}
					f, _ := info.Uses[sel.Sel].(*types.Func)
					if f == nil || f.Pkg() == nil {
						continue
					}
					bare := false
					switch f.Pkg().Path() + "." + f.Name() {
					case "errors.New":
						bare = true
					case "fmt.Errorf":
						bare = true
						if len(call.Args) > 0 {
							if tv, ok := info.Types[call.Args[0]]; ok && tv.Value != nil && strings.Contains(tv.Value.ExactString(), "%w") {
								bare = false
							}
						}
					}
					if bare && !seen[funcKey(fn)] && !allowed[funcKey(fn)] {
						seen[funcKey(fn)] = true
						offenders = append(offenders, funcKey(fn))
					}
				}
				return true
			})
		}
	}
	sort.Strings(offenders)
	return offenders
}

package main

import (
	"fmt"
	"go/ast"
	"go/types"
	"strings"
)

func countLoops(fd *ast.FuncDecl) int {
	n := 0
	if fd.Body == nil {
		return 0
	}
	ast.Inspect(fd.Body, func(nd ast.Node) bool {
		switch nd.(type) {
		case *ast.ForStmt, *ast.RangeStmt:
			n++
		}
		return true
	})
	return n
}

// checkFrames decides the syntactic declarations
//   frame Type.field: f1, f2    only the listed functions of the package may assign the field
//   callers pkg.Func: f1, f2    only the listed functions (pkgshort.Key) may call Func
// over the whole loaded module. Each declaration yields one obligation.
func (w *World) checkFrames(prop string) []*Obligation {
	var out []*Obligation
	for _, fd := range w.Frames {
		if !hasProp(fd.Props, prop) {
			continue
		}
		kind := "frame"
		if fd.IsCall {
			kind = "callers"
		}
		fam := shortPkg(fd.Pkg) + "." + fd.Comp + "#" + kind
		o := &Obligation{ID: fam + "@1", Family: fam, Kind: kind, Func: shortPkg(fd.Pkg) + "." + fd.Comp, Goal: "true", Backend: "syntactic",
			Text: fmt.Sprintf("%s %s: %s", kind, fd.Comp, strings.Join(fd.Funcs, ", "))}
		allowed := map[string]bool{}
		for _, f := range fd.Funcs {
			allowed[f] = true
		}
		var offenders []string
		if fd.IsCall {
			offenders = w.callersOutside(fd, allowed)
		} else {
			offenders = w.writersOutside(fd, allowed)
		}
		if offenders == nil {
			o.Status = "discharged"
		} else if len(offenders) == 1 && strings.HasPrefix(offenders[0], "!") {
			o.Status = "unknown"
			o.Text += " -- " + offenders[0][1:]
		} else {
			o.Status = "refuted"
			o.Text += " -- violated by " + strings.Join(offenders, ", ")
		}
		out = append(out, o)
	}
	return out
}

func (w *World) writersOutside(fd *FrameDecl, allowed map[string]bool) []string {
	pi := w.Pkgs[fd.Pkg]
	if pi == nil {
		return []string{"!package " + fd.Pkg + " not loaded"}
	}
	parts := strings.SplitN(fd.Comp, ".", 2)
	if len(parts) != 2 {
		return []string{"!bad frame component " + fd.Comp}
	}
	tobj := pi.P.Types.Scope().Lookup(parts[0])
	if tobj == nil {
		return []string{"!type " + parts[0] + " no longer exists"}
	}
	st, ok := tobj.Type().Underlying().(*types.Struct)
	if !ok {
		return []string{"!" + parts[0] + " is not a struct"}
	}
	var field *types.Var
	for i := 0; i < st.NumFields(); i++ {
		if st.Field(i).Name() == parts[1] {
			field = st.Field(i)
		}
	}
	if field == nil {
		return []string{"!field " + fd.Comp + " no longer exists"}
	}
	var offenders []string
	// the field may be written from any package of the module only if exported; scan all loaded packages
	for _, p := range w.Pkgs {
		info := p.P.TypesInfo
		for _, file := range p.P.Syntax {
			for _, d := range file.Decls {
				fn, ok := d.(*ast.FuncDecl)
				if !ok || fn.Body == nil {
					continue
				}
				key := funcKey(fn)
				if p.Path != fd.Pkg {
					key = shortPkg(p.Path) + "." + key
				}
				isField := func(e ast.Expr) bool {
					for {
						switch x := ast.Unparen(e).(type) {
						case *ast.IndexExpr: // x.f[k] = v writes the map/slice held by the field
							e = x.X
							continue
						case *ast.SelectorExpr:
							if s := info.Selections[x]; s != nil && s.Obj() == field {
								return true
							}
							return false
						}
						return false
					}
				}
				hit := false
				ast.Inspect(fn.Body, func(n ast.Node) bool {
					switch x := n.(type) {
					case *ast.AssignStmt:
						for _, l := range x.Lhs {
							if isField(l) {
								hit = true
							}
						}
					case *ast.IncDecStmt:
						if isField(x.X) {
							hit = true
						}
					case *ast.UnaryExpr:
						if x.Op.String() == "&" && isField(x.X) {
							hit = true
						}
					case *ast.CallExpr:
						if id, ok := x.Fun.(*ast.Ident); ok && (id.Name == "delete" || id.Name == "clear") && len(x.Args) > 0 && isField(x.Args[0]) {
							if _, isB := info.Uses[id].(*types.Builtin); isB {
								hit = true
							}
						}
					}
					return true
				})
				if hit && !allowed[key] {
					offenders = append(offenders, key+" ("+w.pos(fn.Pos())+")")
				}
			}
		}
	}
	return offenders
}

func (w *World) callersOutside(fd *FrameDecl, allowed map[string]bool) []string {
	// fd.Comp: Func or Type.Method of package fd.Pkg
	pi := w.Pkgs[fd.Pkg]
	if pi == nil {
		return []string{"!package " + fd.Pkg + " not loaded"}
	}
	target := pi.Funcs[fd.Comp]
	if target == nil {
		return []string{"!function " + fd.Comp + " no longer exists"}
	}
	tobj := pi.P.TypesInfo.Defs[target.Name]
	var offenders []string
	for _, p := range w.Pkgs {
		info := p.P.TypesInfo
		for _, file := range p.P.Syntax {
			for _, d := range file.Decls {
				fn, ok := d.(*ast.FuncDecl)
				if !ok || fn.Body == nil {
					continue
				}
				key := shortPkg(p.Path) + "." + funcKey(fn)
				hit := false
				ast.Inspect(fn.Body, func(n ast.Node) bool {
					if id, ok := n.(*ast.Ident); ok {
						if u := info.Uses[id]; u != nil {
							if f, ok := u.(*types.Func); ok && f.Origin() == tobj {
								hit = true
							}
						}
					}
					return true
				})
				if hit && !allowed[key] && !allowed[funcKey(fn)] {
					offenders = append(offenders, key+" ("+w.pos(fn.Pos())+")")
				}
			}
		}
	}
	return offenders
}

package main

import (
	"sort"
	"strings"
)

// Pattern inference for quantifiers: the solver's own heuristics are unstable on heap terms, so every
// quantifier gets explicit triggers: the smallest `(select A I)` sub-terms whose array A is free of
// bound variables and whose index mentions one, chosen so that together they cover all binders.

type sx struct {
	atom string
	kids []*sx
	text string
}

func parseSx(s string) *sx {
	pos := 0
	var parse func() *sx
	parse = func() *sx {
		for pos < len(s) && (s[pos] == ' ' || s[pos] == '\n') {
			pos++
		}
		if pos >= len(s) {
			return nil
		}
		if s[pos] == '(' {
			start := pos
			pos++
			n := &sx{}
			for {
				for pos < len(s) && (s[pos] == ' ' || s[pos] == '\n') {
					pos++
				}
				if pos >= len(s) {
					break
				}
				if s[pos] == ')' {
					pos++
					break
				}
				k := parse()
				if k == nil {
					break
				}
				n.kids = append(n.kids, k)
			}
			n.text = s[start:pos]
			return n
		}
		start := pos
		for pos < len(s) && s[pos] != ' ' && s[pos] != ')' && s[pos] != '(' && s[pos] != '\n' {
			pos++
		}
		return &sx{atom: s[start:pos], text: s[start:pos]}
	}
	return parse()
}

func (n *sx) mentions(names map[string]bool) map[string]bool {
	out := map[string]bool{}
	var walk func(x *sx)
	walk = func(x *sx) {
		if x.atom != "" {
			if names[x.atom] {
				out[x.atom] = true
			}
			return
		}
		for _, k := range x.kids {
			walk(k)
		}
	}
	walk(n)
	return out
}

func (n *sx) hasForeignBound(own map[string]bool) bool {
	found := false
	var walk func(x *sx)
	walk = func(x *sx) {
		if x.atom != "" {
			if strings.Contains(x.atom, "!") && !own[x.atom] {
				found = true
			}
			return
		}
		for _, k := range x.kids {
			walk(k)
		}
	}
	walk(n)
	return found
}

func inferPatterns(body string, bound []string) string {
	own := map[string]bool{}
	for _, b := range bound {
		own[b] = true
	}
	root := parseSx(body)
	if root == nil {
		return ""
	}
	type cand struct {
		text string
		vars map[string]bool
	}
	var cands []cand
	seen := map[string]bool{}
	var walk func(x *sx, underQuant bool)
	walk = func(x *sx, underQuant bool) {
		if x.atom != "" {
			return
		}
		if len(x.kids) > 0 && (x.kids[0].atom == "forall" || x.kids[0].atom == "exists") {
			// terms under a nested quantifier may mention its binders; still usable if they do not
			for _, k := range x.kids[1:] {
				walk(k, true)
			}
			return
		}
		isCand := false
		if len(x.kids) == 3 && x.kids[0].atom == "select" {
			arr, idx := x.kids[1], x.kids[2]
			if len(arr.mentions(own)) == 0 && len(idx.mentions(own)) > 0 && !x.hasForeignBound(own) {
				// the array part must itself not be a candidate-containing select on a bound index
				if !seen[x.text] {
					seen[x.text] = true
					cands = append(cands, cand{x.text, x.mentions(own)})
				}
				isCand = true
			}
		} else if len(x.kids) >= 2 && x.kids[0].atom != "" && isUninterp(x.kids[0].atom) {
			if len(x.mentions(own)) > 0 && !x.hasForeignBound(own) && !seen[x.text] {
				seen[x.text] = true
				cands = append(cands, cand{x.text, x.mentions(own)})
				isCand = true
			}
		}
		_ = isCand
		for _, k := range x.kids {
			walk(k, underQuant)
		}
	}
	walk(root, false)
	if len(cands) == 0 {
		return ""
	}
	// prefer terms with little arithmetic, then small terms
	arith := func(t string) int {
		return strings.Count(t, "(+ ") + strings.Count(t, "(- ") + strings.Count(t, "(* ")
	}
	sort.SliceStable(cands, func(i, j int) bool {
		ai, aj := arith(cands[i].text), arith(cands[j].text)
		if ai != aj {
			return ai < aj
		}
		return len(cands[i].text) < len(cands[j].text)
	})
	// drop candidates that strictly contain another candidate with the same variable set (keep innermost)
	var keep []cand
	for i, c := range cands {
		redundant := false
		for j, d := range cands {
			if i != j && len(d.text) < len(c.text) && strings.Contains(c.text, d.text) && sameSet(c.vars, d.vars) {
				redundant = true
				break
			}
		}
		if !redundant {
			keep = append(keep, c)
		}
	}
	// one multi-pattern covering all binders: greedy
	covered := map[string]bool{}
	var chosen []string
	for len(covered) < len(bound) {
		best := -1
		bestGain := 0
		for i, c := range keep {
			g := 0
			for v := range c.vars {
				if !covered[v] {
					g++
				}
			}
			if g > bestGain { // keep is sorted by preference: first best wins
				best, bestGain = i, g
			}
		}
		if best < 0 {
			return "" // cannot cover all binders
		}
		chosen = append(chosen, keep[best].text)
		for v := range keep[best].vars {
			covered[v] = true
		}
	}
	// alternative single patterns: every kept candidate that alone covers all binders
	var pats []string
	pats = append(pats, ":pattern ("+strings.Join(chosen, " ")+")")
	minArith := 1 << 30
	for _, c := range keep {
		if len(c.vars) == len(bound) && arith(c.text) < minArith {
			minArith = arith(c.text)
		}
	}
	for _, c := range keep {
		if len(c.vars) == len(bound) && arith(c.text) == minArith {
			p := ":pattern (" + c.text + ")"
			if p != pats[0] && len(pats) < 4 {
				pats = append(pats, p)
			}
		}
	}
	return strings.Join(pats, " ")
}

func sameSet(a, b map[string]bool) bool {
	if len(a) != len(b) {
		return false
	}
	for k := range a {
		if !b[k] {
			return false
		}
	}
	return true
}

func isUninterp(f string) bool {
	switch f {
	case "strlen", "strat", "typeof", "ptrof", "errIs", "maplen":
		return true
	}
	return strings.HasPrefix(f, "fnapp_") || strings.HasPrefix(f, "spec_")
}

func (n *sx) render() string {
	if n.atom != "" || len(n.kids) == 0 && n.text != "" && n.atom == "" && n.text[0] != '(' {
		return n.atom
	}
	parts := make([]string, len(n.kids))
	for i, k := range n.kids {
		parts[i] = k.render()
	}
	return "(" + strings.Join(parts, " ") + ")"
}

func (n *sx) countAtom(a string) int {
	if n.atom != "" {
		if n.atom == a {
			return 1
		}
		return 0
	}
	c := 0
	for _, k := range n.kids {
		c += k.countAtom(a)
	}
	return c
}

// linearRest: if t == k + rest with k occurring exactly once, positively, under + / left of -, return rest
// (as t with k replaced by 0).
func linearRest(t *sx, k string) (string, bool) {
	if t.atom != "" {
		return "", false // bare k: nothing to normalise
	}
	if t.countAtom(k) != 1 {
		return "", false
	}
	var ok func(x *sx) bool
	ok = func(x *sx) bool {
		if x.atom != "" {
			return x.atom == k
		}
		if len(x.kids) < 2 || x.kids[0].atom == "" {
			return false
		}
		switch x.kids[0].atom {
		case "+":
			for _, c := range x.kids[1:] {
				if c.countAtom(k) == 1 {
					return ok(c)
				}
			}
		case "-":
			if len(x.kids) == 3 && x.kids[1].countAtom(k) == 1 {
				return ok(x.kids[1])
			}
		}
		return false
	}
	if !ok(t) {
		return "", false
	}
	var subst func(x *sx) *sx
	subst = func(x *sx) *sx {
		if x.atom != "" {
			if x.atom == k {
				return &sx{atom: "0"}
			}
			return x
		}
		n := &sx{}
		for _, c := range x.kids {
			n.kids = append(n.kids, subst(c))
		}
		return n
	}
	return subst(t).render(), true
}

// normalizeQuant rewrites a quantifier body so that element reads `(select H (pr A (+ off k)))` become
// `(select H (pr A k))` by the change of variable k := k - off: triggers then contain the bound variable
// bare, and match every ground read of that array whatever the arithmetic shape of its index.
// For a single binder that indexes several arrays with different offsets, one (equivalent) variant per
// offset is returned, so that a ground read of any of those arrays instantiates the fact.
func normalizeQuant(body string, bound []string) []string {
	if len(bound) == 1 {
		k := bound[0]
		rests := candidateRests(body, bound, k)
		if len(rests) > 1 {
			var out []string
			for i, r := range rests {
				if i >= 3 {
					break
				}
				out = append(out, rewriteVar(body, k, r))
			}
			return out
		}
	}
	for _, k := range bound {
		rests := candidateRests(body, bound, k)
		if len(rests) == 0 {
			continue
		}
		body = rewriteVar(body, k, rests[0])
	}
	return []string{body}
}

// candidateRests lists the distinct offsets `rest` such that some read `(pr A (k + rest))` occurs in body
// (empty string "" stands for a bare read `(pr A k)`, listed first when present).
func candidateRests(body string, bound []string, k string) []string {
	own := map[string]bool{}
	for _, b := range bound {
		own[b] = true
	}
	root := parseSx(body)
	if root == nil {
		return nil
	}
	seen := map[string]bool{}
	var rests []string
	bare := false
	var walk func(x *sx)
	walk = func(x *sx) {
		if x.atom != "" {
			return
		}
		if len(x.kids) == 3 && x.kids[0].atom == "pr" && len(x.kids[1].mentions(own)) == 0 {
			idx := x.kids[2]
			if idx.atom == k {
				bare = true
			} else {
				others := idx.mentions(own)
				delete(others, k)
				if len(others) == 0 && !idx.hasForeignBound(own) {
					if r, ok := linearRest(idx, k); ok && !seen[r] {
						seen[r] = true
						rests = append(rests, r)
					}
				}
			}
		}
		for _, c := range x.kids {
			walk(c)
		}
	}
	walk(root)
	if bare {
		if len(rests) == 0 {
			return nil
		}
		return append([]string{""}, rests...)
	}
	return rests
}

// rewriteVar performs k := k - rest on body (rest "" = identity).
func rewriteVar(body, k, rest string) string {
	if rest == "" {
		return body
	}
	root := parseSx(body)
	restSx := parseSx(rest)
	var rw func(x *sx) *sx
	rw = func(x *sx) *sx {
		if x.atom != "" {
			if x.atom == k {
				return &sx{kids: []*sx{{atom: "-"}, {atom: k}, restSx}}
			}
			return x
		}
		if len(x.kids) >= 2 && (x.kids[0].atom == "forall" || x.kids[0].atom == "exists") {
			n := &sx{kids: []*sx{x.kids[0], x.kids[1]}}
			for _, c := range x.kids[2:] {
				n.kids = append(n.kids, rw(c))
			}
			return n
		}
		// an index of the form k + rest becomes the bare variable
		if x.countAtom(k) == 1 {
			if r, ok := linearRest(x, k); ok && r == rest {
				return &sx{atom: k}
			}
		}
		n := &sx{}
		for _, c := range x.kids {
			n.kids = append(n.kids, rw(c))
		}
		return n
	}
	return rw(root).render()
}

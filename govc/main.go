package main

import (
	"flag"
	"fmt"
	"os"
	"path/filepath"
	"runtime"
	"sort"
	"strings"
)

var (
	verifDir = "/verif"
	repoDir  = "/repo"
)

func envOr(k, d string) string {
	if v := os.Getenv(k); v != "" {
		return v
	}
	return d
}

func main() {
	if len(os.Args) < 2 {
		fmt.Fprintln(os.Stderr, "usage: govc <verify|check|sweep|list> ...")
		os.Exit(2)
	}
	verifDir = envOr("VERIF_DIR", verifDir)
	repoDir = envOr("REPO_DIR", repoDir)
	switch os.Args[1] {
	case "verify":
		cmdVerify(os.Args[2:])
	case "check":
		cmdCheck(os.Args[2:])
	case "list":
		cmdList(os.Args[2:])
	case "sweep":
		cmdSweep(os.Args[2:])
	default:
		fmt.Fprintln(os.Stderr, "unknown command", os.Args[1])
		os.Exit(2)
	}
}

// all packages that may carry contracts
var contractPkgs = []string{"./..."}

func loadAll(overlay map[string][]byte) *World {
	w, err := loadWorld(repoDir, contractPkgs, overlay)
	if err != nil {
		fmt.Fprintln(os.Stderr, "load:", err)
		os.Exit(3)
	}
	if err := w.loadSpecs(filepath.Join(verifDir, "contracts", "deps")); err != nil {
		fmt.Fprintln(os.Stderr, "contracts:", err)
		os.Exit(3)
	}
	return w
}

func cmdList(args []string) {
	w := loadAll(nil)
	var ks []string
	for k, c := range w.Contracts {
		ks = append(ks, fmt.Sprintf("%-70s props=%v trusted=%v", k, c.Props, c.Trusted))
	}
	sort.Strings(ks)
	for _, k := range ks {
		fmt.Println(k)
	}
}

func cmdVerify(args []string) {
	fs := flag.NewFlagSet("verify", flag.ExitOnError)
	fn := fs.String("func", "", "pkgpath-suffix::Key (e.g. limits::IMAP.CheckUIDCount); empty = all with contracts in -pkg")
	pkg := fs.String("pkg", "", "package path suffix filter")
	timeout := fs.Int("timeout", 10, "solver timeout (s)")
	verbose := fs.Bool("v", false, "print all obligations")
	keep := fs.String("work", "", "work dir for SMT files (kept)")
	fs.Parse(args)
	w := loadAll(nil)
	work := *keep
	if work == "" {
		work, _ = os.MkdirTemp("", "govc")
		defer os.RemoveAll(work)
	} else {
		os.MkdirAll(work, 0o755)
	}
	cfg := SolverCfg{WorkDir: work, TimeoutS: *timeout, Seed: 0, Jobs: runtime.NumCPU()}
	var results []*FuncResult
	for _, key := range sortedKeys(w.Contracts) {
		c := w.Contracts[key]
		if c.Trusted {
			continue
		}
		if *fn != "" && !strings.HasSuffix(key, *fn) {
			continue
		}
		if *pkg != "" && !strings.HasSuffix(c.Pkg, *pkg) {
			continue
		}
		pi := w.Pkgs[c.Pkg]
		if pi == nil || pi.Funcs[c.Key] == nil {
			fmt.Printf("MISSING TARGET %s\n", key)
			continue
		}
		r := w.verifyFunc(pi, pi.Funcs[c.Key], c, "contract")
		results = append(results, r)
	}
	var all []*Obligation
	for _, r := range results {
		all = append(all, r.Obls...)
	}
	batchAll(results, cfg)
	dischargeAll(all, cfg)
	bad := 0
	for _, r := range results {
		nd := 0
		for _, o := range r.Obls {
			if o.Status == "discharged" {
				nd++
			}
		}
		fmt.Printf("== %s: %d/%d discharged, paths=%d", r.Func, nd, len(r.Obls), r.Paths)
		if r.OutOfSubset != "" {
			fmt.Printf("  OUT-OF-SUBSET: %s", r.OutOfSubset)
			bad++
		}
		fmt.Println()
		if len(r.Uncontracted) > 0 {
			fmt.Printf("   uncontracted: %v\n", r.Uncontracted)
		}
		if len(r.Dropped) > 0 && *verbose {
			fmt.Printf("   dropped: %v\n", r.Dropped)
		}
		for _, o := range r.Obls {
			if o.Status != "discharged" || *verbose {
				fmt.Printf("   [%s] %s (%s, %.2fs) %s  -- %s\n", o.Status, o.ID, o.Backend, o.TimeS, o.Pos, o.Text)
				if o.Status != "discharged" {
					bad++
					if len(o.Model) > 0 {
						var ms []string
						for _, in := range o.Inputs {
							if v, ok := o.Model[in.Term]; ok {
								ms = append(ms, in.Name+"="+v)
							}
						}
						fmt.Printf("      model: %s\n", strings.Join(ms, " "))
					}
					fmt.Printf("      smt: %s answers=%v\n", o.SMTFile, o.Answers)
				}
			}
		}
	}
	if bad > 0 {
		os.Exit(1)
	}
}

package main

// Contract language: Gobra-style `//@` comment lines, parsed into Contract structures.
// Expression syntax is Go's plus `==>`, `<==>`, `forall x T :: e`, `exists x T :: e`, `old(e)`.

import (
	"fmt"
	"os"
	"strconv"
	"strings"
)

// ---------------------------------------------------------------- AST

type SExpr interface{ String() string }

type (
	SIdent struct{ Name string }
	SInt   struct{ V string }
	SStr   struct{ V string }
	SBool  struct{ V bool }
	SUnary struct {
		Op string
		X  SExpr
	}
	SBinary struct {
		Op   string
		X, Y SExpr
	}
	SIndex struct{ X, I SExpr }
	SSlice struct{ X, Lo, Hi SExpr }
	SSel   struct {
		X    SExpr
		Name string
	}
	SCall struct {
		Fun  SExpr
		Args []SExpr
	}
	SQuant struct {
		Forall   bool
		Vars     []SVar
		Body     SExpr
		Triggers []SExpr // explicit multi-pattern: forall x T :: { t1, t2 } body
	}
	SVar struct{ Name, Type string }
)

func (e *SIdent) String() string { return e.Name }
func (e *SInt) String() string   { return e.V }
func (e *SStr) String() string   { return strconv.Quote(e.V) }
func (e *SBool) String() string  { return fmt.Sprint(e.V) }
func (e *SUnary) String() string { return e.Op + e.X.String() }
func (e *SBinary) String() string {
	return "(" + e.X.String() + " " + e.Op + " " + e.Y.String() + ")"
}
func (e *SIndex) String() string { return e.X.String() + "[" + e.I.String() + "]" }
func (e *SSlice) String() string {
	lo, hi := "", ""
	if e.Lo != nil {
		lo = e.Lo.String()
	}
	if e.Hi != nil {
		hi = e.Hi.String()
	}
	return e.X.String() + "[" + lo + ":" + hi + "]"
}
func (e *SSel) String() string { return e.X.String() + "." + e.Name }
func (e *SCall) String() string {
	var a []string
	for _, x := range e.Args {
		a = append(a, x.String())
	}
	return e.Fun.String() + "(" + strings.Join(a, ", ") + ")"
}
func (e *SQuant) String() string {
	q := "exists"
	if e.Forall {
		q = "forall"
	}
	var vs []string
	for _, v := range e.Vars {
		vs = append(vs, v.Name+" "+v.Type)
	}
	return "(" + q + " " + strings.Join(vs, ", ") + " :: " + e.Body.String() + ")"
}

// ---------------------------------------------------------------- contracts

type Clause struct {
	Label string // stable label used in obligation family ids
	Expr  SExpr
	Line  int
	Text  string
}

type LoopSpec struct {
	Invariants []Clause
	Decreases  SExpr
	DecText    string
	Line       int
}

type ModEntry struct {
	Expr SExpr // x.f, elems(x.f), *p, x.*  (all fields)
	Text string
}

type Contract struct {
	File        string
	Line        int
	Pkg         string // package path the contract belongs to
	Key         string // "Recv.Name" or "Name"
	Params      []string
	Results     []string
	Requires    []Clause
	Ensures     []Clause
	Defines     []Clause // ghost-state definitions (assumed at call sites, not checked in the body)
	Modifies    []ModEntry
	HasMod      bool
	Loops       map[int]*LoopSpec
	Props       []string
	Wraps       map[string]bool // wrap-around allowed for assignments to these variables
	Pure        bool            // no heap effect (deps / trusted)
	Trusted     bool            // body not verified (deps are always trusted)
	Abstract    bool            // assumed model of an interface method: no impl check
	CallAsserts []CallAssert    // assertions at call sites inside this function (callsite F N requires ...)
	NoCallbacks bool            // closure bodies this function passes as callbacks are not verified here (stated as unverified)
	PureCalls   bool            // calls of function-typed parameters have no heap effect (assumed)
	Callbacks   []CallbackSpec
	Inline      bool
	NoSafety    map[string]bool // safety kinds not generated (stated in evidence)
	Known       map[string]bool
	Notes       []string
	Ghost       []GhostStmt
	Depth       string
	RecDec      SExpr // `recursion decreases e`: e (over the parameters) is >= 0 and strictly smaller at every self-call
	RecDecText  string
	RecRank     int
}

// CallAssert: `callsite F N requires [label:] expr` - at the N-th call (in source order) of a function named F inside
// the function under contract, expr must hold; expr is over the locals at that point, the hidden loop indices and the
// callee's arguments bound as _<parameter name>.
type CallAssert struct {
	Callee string
	Ord    int
	Clause Clause
	// Closure: `closure F N ensures e` - the function literal handed to that call establishes e whenever it runs
	// (from an arbitrary heap state), e being over the enclosing function's variables
	Closure bool
}

type CallbackSpec struct {
	Param     string
	Cond      SExpr
	Immediate bool
}

type GhostStmt struct {
	Text string
}

type PredDef struct {
	Name     string
	Params   []SVar
	Body     SExpr
	Pkg      string
	Rec      bool
	Uninterp bool
	Ret      string
	Dec      SExpr
}

type FrameDecl struct {
	Pkg      string
	Comp     string   // Type.field
	Funcs    []string // functions allowed to assign
	Props    []string
	Line     int
	File     string
	IsCall   bool // callers K: ... instead of frame
	IsArg    bool // argpolicy
	IsElems  bool // frameelems [*]T: elements of slices of that type are never assigned in place
	IsErrKind bool // errorkind T: errors created by this package are *T values (no bare fmt.Errorf / errors.New returned)
	ArgIndex int
	ArgLit   string
}

type TypeInv struct {
	Pkg   string
	Type  string
	Body  SExpr
	Props []string
}

type GhostField struct {
	Pkg, Type, Name, TypeName string
}

type AxiomDecl struct {
	Pkg  string
	Body SExpr
	Text string
}

type SpecFile struct {
	Axioms    []*AxiomDecl
	Ghosts    []*GhostField
	Path      string
	Pkg       string
	Contracts []*Contract
	Preds     []*PredDef
	Frames    []*FrameDecl
	TypeInvs  []*TypeInv
	Assumes   []string // occurrences of assume/trusted/axiom, copied into the evidence
}

// ---------------------------------------------------------------- lexer

type tok struct {
	kind string // id int str op eof
	s    string
	line int
}

var clauseKW = map[string]bool{
	"requires": true, "ensures": true, "defines": true, "modifies": true, "loop": true, "invariant": true, "decreases": true,
	"property": true, "wraps": true, "func": true, "pred": true, "pure": true, "trusted": true, "inline": true,
	"frame": true, "callers": true, "type": true, "package": true, "nosafety": true, "note": true, "recursion": true, "ghost": true, "argpolicy": true, "ufunc": true, "abstract": true, "axiom": true, "purecalls": true, "nocallbacks": true, "callsite": true, "closure": true, "frameelems": true, "callback": true, "errorkind": true,
}

func lexSpec(lines []string, lineNos []int) ([]tok, error) {
	var out []tok
	for li, l := range lines {
		ln := lineNos[li]
		i := 0
		for i < len(l) {
			c := l[i]
			switch {
			case c == ' ' || c == '\t':
				i++
			case c == '/' && i+1 < len(l) && l[i+1] == '/':
				i = len(l)
			case c >= '0' && c <= '9':
				j := i
				for j < len(l) && (l[j] >= '0' && l[j] <= '9' || l[j] == 'x' || l[j] >= 'a' && l[j] <= 'f' || l[j] >= 'A' && l[j] <= 'F' || l[j] == '_') {
					j++
				}
				out = append(out, tok{"int", strings.ReplaceAll(l[i:j], "_", ""), ln})
				i = j
			case c == '_' || c == '$' || c >= 'a' && c <= 'z' || c >= 'A' && c <= 'Z':
				j := i
				for j < len(l) && (l[j] == '_' || l[j] == '$' || l[j] >= 'a' && l[j] <= 'z' || l[j] >= 'A' && l[j] <= 'Z' || l[j] >= '0' && l[j] <= '9') {
					j++
				}
				out = append(out, tok{"id", l[i:j], ln})
				i = j
			case c == '"':
				j := i + 1
				for j < len(l) && l[j] != '"' {
					if l[j] == '\\' {
						j++
					}
					j++
				}
				if j >= len(l) {
					return nil, fmt.Errorf("line %d: unterminated string", ln)
				}
				s, err := strconv.Unquote(l[i : j+1])
				if err != nil {
					return nil, fmt.Errorf("line %d: %v", ln, err)
				}
				out = append(out, tok{"str", s, ln})
				i = j + 1
			case c == '`':
				j := i + 1
				for j < len(l) && l[j] != '`' {
					j++
				}
				out = append(out, tok{"str", l[i+1 : j], ln})
				i = j + 1
			case c == '\'':
				j := i + 1
				for j < len(l) && l[j] != '\'' {
					if l[j] == '\\' {
						j++
					}
					j++
				}
				r, _, _, err := strconv.UnquoteChar(l[i+1:j], '\'')
				if err != nil {
					return nil, fmt.Errorf("line %d: bad char literal", ln)
				}
				out = append(out, tok{"int", strconv.Itoa(int(r)), ln})
				i = j + 1
			default:
				ops := []string{"<==>", "==>", "::", "==", "!=", "<=", ">=", "&&", "||", ":=", "..."}
				matched := false
				for _, op := range ops {
					if strings.HasPrefix(l[i:], op) {
						out = append(out, tok{"op", op, ln})
						i += len(op)
						matched = true
						break
					}
				}
				if !matched {
					out = append(out, tok{"op", string(c), ln})
					i++
				}
			}
		}
	}
	out = append(out, tok{"eof", "", 0})
	return out, nil
}

// ---------------------------------------------------------------- parser

type sparser struct {
	toks []tok
	pos  int
	file string
}

func (p *sparser) peek() tok { return p.toks[p.pos] }
func (p *sparser) next() tok { t := p.toks[p.pos]; p.pos++; return t }
func (p *sparser) isOp(s string) bool {
	t := p.peek()
	return t.kind == "op" && t.s == s
}
func (p *sparser) isKW(s string) bool {
	t := p.peek()
	return t.kind == "id" && t.s == s
}
func (p *sparser) accept(s string) bool {
	if p.isOp(s) {
		p.pos++
		return true
	}
	return false
}
func (p *sparser) expect(s string) {
	if !p.accept(s) {
		p.fail("expected %q, got %q", s, p.peek().s)
	}
}
func (p *sparser) fail(f string, a ...any) {
	panic(fmt.Errorf("%s:%d: %s", p.file, p.peek().line, fmt.Sprintf(f, a...)))
}

var binPrec = map[string]int{
	"<==>": 1, "==>": 2, "||": 3, "&&": 4,
	"==": 5, "!=": 5, "<": 5, "<=": 5, ">": 5, ">=": 5,
	"+": 6, "-": 6, "*": 7, "/": 7, "%": 7,
}

func (p *sparser) expr(minPrec int) SExpr {
	x := p.unary()
	for {
		t := p.peek()
		if t.kind != "op" {
			return x
		}
		pr, ok := binPrec[t.s]
		if !ok || pr < minPrec {
			return x
		}
		p.next()
		var y SExpr
		if t.s == "==>" || t.s == "<==>" { // right assoc
			y = p.expr(pr)
		} else {
			y = p.expr(pr + 1)
		}
		x = &SBinary{t.s, x, y}
	}
}

func (p *sparser) unary() SExpr {
	if p.accept("!") {
		return &SUnary{"!", p.unary()}
	}
	if p.accept("-") {
		return &SUnary{"-", p.unary()}
	}
	return p.postfix(p.primary())
}

func (p *sparser) typeName() string {
	// a (possibly qualified / pointer / slice) type name used for binder types
	s := ""
	for p.accept("*") {
		s += "*"
	}
	if p.accept("[") {
		p.expect("]")
		return s + "[]" + p.typeName()
	}
	t := p.next()
	if t.kind != "id" {
		p.fail("type name expected")
	}
	s += t.s
	if p.accept(".") {
		s += "." + p.next().s
	}
	return s
}

func (p *sparser) primary() SExpr {
	t := p.next()
	switch t.kind {
	case "int":
		return &SInt{t.s}
	case "str":
		return &SStr{t.s}
	case "id":
		switch t.s {
		case "true":
			return &SBool{true}
		case "false":
			return &SBool{false}
		case "forall", "exists":
			var vs []SVar
			for {
				var names []string
				names = append(names, p.next().s)
				for p.accept(",") {
					names = append(names, p.next().s)
				}
				ty := p.typeName()
				for _, n := range names {
					vs = append(vs, SVar{n, ty})
				}
				if p.accept("::") {
					break
				}
				p.expect(";")
			}
			var trig []SExpr
			if p.accept("{") {
				for !p.isOp("}") {
					trig = append(trig, p.expr(1))
					if !p.accept(",") {
						break
					}
				}
				p.expect("}")
			}
			body := p.expr(1)
			return &SQuant{Forall: t.s == "forall", Vars: vs, Body: body, Triggers: trig}
		}
		return &SIdent{t.s}
	case "op":
		if t.s == "(" {
			e := p.expr(1)
			p.expect(")")
			return e
		}
	}
	p.pos--
	p.fail("unexpected token %q", t.s)
	return nil
}

func (p *sparser) postfix(x SExpr) SExpr {
	for {
		switch {
		case p.accept("."):
			t := p.next()
			x = &SSel{x, t.s}
		case p.accept("["):
			var lo, hi SExpr
			if p.isOp(":") {
				p.next()
				if !p.isOp("]") {
					hi = p.expr(1)
				}
				p.expect("]")
				x = &SSlice{x, nil, hi}
				continue
			}
			lo = p.expr(1)
			if p.accept(":") {
				if !p.isOp("]") {
					hi = p.expr(1)
				}
				p.expect("]")
				x = &SSlice{x, lo, hi}
				continue
			}
			p.expect("]")
			x = &SIndex{x, lo}
		case p.accept("("):
			var args []SExpr
			for !p.isOp(")") {
				args = append(args, p.expr(1))
				if !p.accept(",") {
					break
				}
			}
			p.expect(")")
			x = &SCall{x, args}
		default:
			return x
		}
	}
}

func (p *sparser) nameList() []string {
	var out []string
	if !p.accept("(") {
		return nil
	}
	for !p.isOp(")") {
		t := p.next()
		out = append(out, t.s)
		// skip an optional type after the name (documentation only)
		for !p.isOp(",") && !p.isOp(")") {
			p.next()
		}
		if !p.accept(",") {
			break
		}
	}
	p.expect(")")
	return out
}

func (p *sparser) atClauseStart() bool {
	t := p.peek()
	return t.kind == "eof" || (t.kind == "id" && clauseKW[t.s])
}

// exprText parses an expression and also returns its source rendering.
func (p *sparser) clauseExpr() (string, SExpr, int) {
	line := p.peek().line
	label := ""
	// optional label:  name ':' expr   (name is an identifier directly followed by ':' and not '::')
	if p.peek().kind == "id" && p.pos+1 < len(p.toks) && p.toks[p.pos+1].kind == "op" && p.toks[p.pos+1].s == ":" {
		label = p.next().s
		p.next()
	}
	e := p.expr(1)
	return label, e, line
}

func parseSpecFile(path string, defaultPkg string) (sf *SpecFile, err error) {
	data, rerr := os.ReadFile(path)
	if rerr != nil {
		return nil, rerr
	}
	defer func() {
		if r := recover(); r != nil {
			if e, ok := r.(error); ok {
				err = e
				return
			}
			panic(r)
		}
	}()
	sf = &SpecFile{Path: path, Pkg: defaultPkg}
	var lines []string
	var nos []int
	for i, l := range strings.Split(string(data), "\n") {
		t := strings.TrimSpace(l)
		if strings.HasPrefix(t, "//@") {
			body := strings.TrimPrefix(t, "//@")
			lines = append(lines, body)
			nos = append(nos, i+1)
			lw := strings.ToLower(body)
			for _, w := range []string{"assume", "trusted", "axiom"} {
				if strings.Contains(lw, w) {
					sf.Assumes = append(sf.Assumes, fmt.Sprintf("%s:%d:%s", path, i+1, strings.TrimSpace(body)))
				}
			}
		}
	}
	toks, lerr := lexSpec(lines, nos)
	if lerr != nil {
		return nil, fmt.Errorf("%s: %v", path, lerr)
	}
	p := &sparser{toks: toks, file: path}
	var cur *Contract
	var curLoop *LoopSpec
	labelSeen := map[string]int{}
	mkLabel := func(c *Contract, kind, label string) string {
		if label == "" {
			k := c.Key + "/" + kind
			labelSeen[k]++
			return fmt.Sprintf("%s%d", kind, labelSeen[k])
		}
		return label
	}
	for p.peek().kind != "eof" {
		t := p.next()
		if t.kind != "id" || !clauseKW[t.s] {
			p.pos--
			p.fail("clause keyword expected, got %q", t.s)
		}
		switch t.s {
		case "package":
			s := ""
			for !p.atClauseStart() {
				s += p.next().s
			}
			sf.Pkg = s
			cur = nil
		case "pred", "pure":
			rec := false
			if t.s == "pure" {
				if !p.isKW("func") {
					if cur == nil {
						p.fail("pure outside a contract")
					}
					cur.Pure = true
					continue
				}
				p.next()
				rec = true
			}
			name := p.next().s
			p.expect("(")
			var vs []SVar
			for !p.isOp(")") {
				var names []string
				names = append(names, p.next().s)
				for p.accept(",") {
					names = append(names, p.next().s)
				}
				ty := p.typeName()
				for _, n := range names {
					vs = append(vs, SVar{n, ty})
				}
				if !p.accept(",") {
					break
				}
			}
			p.expect(")")
			ret := "bool"
			if !p.isOp("=") {
				ret = p.typeName()
			}
			p.expect("=")
			body := p.expr(1)
			pd := &PredDef{Name: name, Params: vs, Body: body, Pkg: sf.Pkg, Rec: rec, Ret: ret}
			sf.Preds = append(sf.Preds, pd)
			cur = nil
		case "func":
			cur = &Contract{File: path, Line: t.line, Pkg: sf.Pkg, Loops: map[int]*LoopSpec{}, Wraps: map[string]bool{}, NoSafety: map[string]bool{}}
			curLoop = nil
			name := p.next().s
			for p.accept(".") {
				name += "." + p.next().s
			}
			cur.Key = name
			if p.isOp("(") {
				cur.Params = p.nameList()
			}
			if p.isOp("(") {
				cur.Results = p.nameList()
			}
			sf.Contracts = append(sf.Contracts, cur)
		case "requires":
			label, e, line := p.clauseExpr()
			cur.Requires = append(cur.Requires, Clause{mkLabel(cur, "requires", label), e, line, e.String()})
		case "ensures":
			label, e, line := p.clauseExpr()
			cur.Ensures = append(cur.Ensures, Clause{mkLabel(cur, "ensures", label), e, line, e.String()})
		case "defines":
			// defines <expr over ghost fields>: how the function moves ghost state. Ghost state has no code: the
			// clause is its definition (assumed at call sites, nothing to check in the body); the ghost field must be
			// listed under modifies
			label, e, line := p.clauseExpr()
			cur.Defines = append(cur.Defines, Clause{mkLabel(cur, "defines", label), e, line, e.String()})
		case "modifies":
			cur.HasMod = true
			for !p.atClauseStart() {
				if p.isKW("nothing") {
					p.next()
					break
				}
				e := p.expr(1)
				cur.Modifies = append(cur.Modifies, ModEntry{e, e.String()})
				if !p.accept(",") {
					break
				}
			}
		case "loop":
			n, _ := strconv.Atoi(p.next().s)
			p.expect(":")
			curLoop = cur.Loops[n]
			if curLoop == nil {
				curLoop = &LoopSpec{Line: t.line}
				cur.Loops[n] = curLoop
			}
		case "invariant":
			if curLoop == nil {
				p.fail("invariant outside loop")
			}
			label, e, line := p.clauseExpr()
			if label == "" {
				label = fmt.Sprintf("inv%d", len(curLoop.Invariants)+1)
			}
			curLoop.Invariants = append(curLoop.Invariants, Clause{label, e, line, e.String()})
		case "decreases":
			e := p.expr(1)
			if curLoop == nil {
				p.fail("decreases outside loop")
			}
			curLoop.Decreases = e
			curLoop.DecText = e.String()
		case "property":
			for !p.atClauseStart() {
				cur.Props = append(cur.Props, p.next().s)
			}
		case "wraps":
			for !p.atClauseStart() {
				cur.Wraps[p.next().s] = true
				p.accept(",")
			}
		case "nosafety":
			for !p.atClauseStart() {
				cur.NoSafety[p.next().s] = true
				p.accept(",")
			}
		case "trusted":
			cur.Trusted = true
		case "abstract":
			// an assumed abstract model of an interface method (e.g. the database): implementations are not
			// checked against it; listed among the assumptions
			cur.Trusted = true
			cur.Abstract = true
		case "inline":
			cur.Inline = true
		case "note":
			s := ""
			if p.peek().kind == "str" {
				s = p.next().s
			}
			if cur != nil {
				cur.Notes = append(cur.Notes, s)
			}
		case "recursion":
			if p.isKW("decreases") {
				p.next()
				cur.RecDec = p.expr(1)
				cur.RecDecText = cur.RecDec.String()
				if p.isKW("rank") {
					// mutual recursion: (measure, rank) decreases lexicographically at every call between functions
					// that declare a measure
					p.next()
					cur.RecRank, _ = strconv.Atoi(p.next().s)
					cur.RecDecText += fmt.Sprintf(" rank %d", cur.RecRank)
				}
			} else {
				cur.Depth = p.next().s
			}
		case "ghost":
			// ghost field Type.$name T
			if !p.isKW("field") {
				p.fail("ghost field expected")
			}
			p.next()
			tn := p.next().s
			p.expect(".")
			fn := p.next().s
			ty := p.typeName()
			sf.Ghosts = append(sf.Ghosts, &GhostField{Pkg: sf.Pkg, Type: tn, Name: fn, TypeName: ty})
			cur = nil
		case "axiom":
			e := p.expr(1)
			sf.Axioms = append(sf.Axioms, &AxiomDecl{Pkg: sf.Pkg, Body: e, Text: e.String()})
			cur = nil
		case "callback":
			// callback <param> [requires <expr over _1, _2, ...>]: the callee invokes the function passed for <param>
			// (possibly several times, in an arbitrary heap state) with arguments satisfying the condition; a closure
			// literal passed at a call site is verified under exactly those assumptions.
			cb := CallbackSpec{Param: p.next().s}
			if p.isKW("immediate") {
				// the callee has no heap effect of its own before (or between) invocations of the callback
				p.next()
				cb.Immediate = true
			}
			if p.isKW("requires") {
				p.next()
				cb.Cond = p.expr(1)
			}
			cur.Callbacks = append(cur.Callbacks, cb)
		case "callsite", "closure":
			ca := CallAssert{Callee: p.next().s, Closure: t.s == "closure"}
			ca.Ord, _ = strconv.Atoi(p.next().s)
			if !(p.isKW("requires") && !ca.Closure) && !(p.isKW("ensures") && ca.Closure) {
				p.fail("callsite F N requires ... / closure F N ensures ...")
			}
			p.next()
			label, e, line := p.clauseExpr()
			if label == "" {
				label = fmt.Sprintf("c%d", len(cur.CallAsserts)+1)
			}
			ca.Clause = Clause{label, e, line, e.String()}
			cur.CallAsserts = append(cur.CallAsserts, ca)
		case "nocallbacks":
			cur.NoCallbacks = true
		case "purecalls":
			// function-typed parameters are assumed free of heap effects (listed among the assumptions)
			cur.PureCalls = true
		case "ufunc":
			// ufunc name(p1 T1, p2 T2) R  -- an uninterpreted spec function (R is int or bool)
			name := p.next().s
			p.expect("(")
			var vs []SVar
			for !p.isOp(")") {
				var names []string
				names = append(names, p.next().s)
				for p.accept(",") {
					names = append(names, p.next().s)
				}
				ty := p.typeName()
				for _, n := range names {
					vs = append(vs, SVar{n, ty})
				}
				if !p.accept(",") {
					break
				}
			}
			p.expect(")")
			ret := p.typeName()
			sf.Preds = append(sf.Preds, &PredDef{Name: name, Params: vs, Pkg: sf.Pkg, Ret: ret, Uninterp: true})
			cur = nil
		case "argpolicy":
			// argpolicy Func <argIndex> <literal> unless: f1, f2   -- callers outside the list must pass the literal
			fd := &FrameDecl{Pkg: sf.Pkg, Line: t.line, File: path, IsArg: true}
			name := p.next().s
			for p.accept(".") {
				name += "." + p.next().s
			}
			fd.Comp = name
			fd.ArgIndex, _ = strconv.Atoi(p.next().s)
			fd.ArgLit = p.next().s
			if !p.isKW("unless") {
				p.fail("argpolicy: `unless` expected")
			}
			p.next()
			p.expect(":")
			for !p.atClauseStart() {
				n := p.next().s
				for p.isOp(".") || p.isOp("/") {
					sep := p.next().s
					n += sep + p.next().s
				}
				fd.Funcs = append(fd.Funcs, n)
				if !p.accept(",") {
					break
				}
			}
			if p.isKW("property") {
				p.next()
				for !p.atClauseStart() {
					fd.Props = append(fd.Props, p.next().s)
				}
			}
			sf.Frames = append(sf.Frames, fd)
			cur = nil
		case "frameelems":
			// frameelems [*]T: none [property ...] - no statement of the module assigns an element of a []T / []*T in
			// place (x[i] = v, x[i]++, copy(x, ...)): such arrays only change by being rebuilt (append, make)
			fd := &FrameDecl{Pkg: sf.Pkg, Line: t.line, File: path, IsElems: true}
			name := ""
			if p.isOp("*") {
				p.next()
				name = "*"
			}
			name += p.next().s
			fd.Comp = name
			p.expect(":")
			for !p.atClauseStart() {
				n := p.next().s
				for p.isOp(".") || p.isOp("/") {
					sep := p.next().s
					n += sep + p.next().s
				}
				fd.Funcs = append(fd.Funcs, n)
				if !p.accept(",") {
					break
				}
			}
			if p.isKW("property") {
				p.next()
				for !p.atClauseStart() {
					fd.Props = append(fd.Props, p.next().s)
				}
			}
			sf.Frames = append(sf.Frames, fd)
		case "errorkind":
			// errorkind T [property ...] - every error a function of this package creates and returns is a *T: no
			// return statement hands out fmt.Errorf(...) without %w or errors.New(...) (callers tell parser errors,
			// which are answered, from transport errors, which end the session, by this type)
			fd := &FrameDecl{Pkg: sf.Pkg, Line: t.line, File: path, IsErrKind: true}
			name := p.next().s
			for p.accept(".") {
				name += "." + p.next().s
			}
			fd.Comp = name
			if p.isKW("unless") {
				p.next()
				p.expect(":")
				for !p.atClauseStart() && !p.isKW("property") {
					n := p.next().s
					for p.isOp(".") {
						n += p.next().s + p.next().s
					}
					fd.Funcs = append(fd.Funcs, n)
					if !p.accept(",") {
						break
					}
				}
			}
			if p.isKW("property") {
				p.next()
				for !p.atClauseStart() {
					fd.Props = append(fd.Props, p.next().s)
				}
			}
			sf.Frames = append(sf.Frames, fd)
			cur = nil
		case "frame", "callers":
			fd := &FrameDecl{Pkg: sf.Pkg, Line: t.line, File: path, IsCall: t.s == "callers"}
			name := p.next().s
			for p.accept(".") {
				name += "." + p.next().s
			}
			fd.Comp = name
			p.expect(":")
			for !p.atClauseStart() {
				n := p.next().s
				for p.isOp(".") || p.isOp("/") {
					sep := p.next().s
					n += sep + p.next().s
				}
				fd.Funcs = append(fd.Funcs, n)
				if !p.accept(",") {
					break
				}
			}
			if p.isKW("property") {
				p.next()
				for !p.atClauseStart() {
					fd.Props = append(fd.Props, p.next().s)
				}
			}
			sf.Frames = append(sf.Frames, fd)
			cur = nil
		case "type":
			name := p.next().s
			for p.accept(".") {
				name += "." + p.next().s
			}
			if !p.isKW("invariant") {
				p.fail("type invariant expected")
			}
			p.next()
			e := p.expr(1)
			ti := &TypeInv{Pkg: sf.Pkg, Type: name, Body: e}
			if p.isKW("property") {
				p.next()
				for !p.atClauseStart() {
					ti.Props = append(ti.Props, p.next().s)
				}
			}
			sf.TypeInvs = append(sf.TypeInvs, ti)
			cur = nil
		}
	}
	return sf, nil
}

package main

import (
	"fmt"
	"go/ast"
	"go/token"
	"go/types"
	"strings"
)

// SpecScope: evaluation context of a spec expression.
type SpecScope struct {
	cur      *State
	old      *State
	names    map[string]*Value // bound names (contract parameters, results, quantified variables)
	oldNames map[string]*Value // values of the same names in the old state (nil: same as names)
	pkg      *PkgInfo          // package whose scope resolves constants, variables, functions, types
	predPkg  string            // package path whose spec predicates / ufuncs are in scope (default: pkg)
	envState *State            // state whose local variables resolve unbound names (default: cur); old() keeps the current locals
	useEnv   bool              // resolve unbound names among the locals of the function under verification
	pos      token.Pos         // position (for local lookup)
	bound    int
	where    string
}

func (sc *SpecScope) child() *SpecScope {
	n := *sc
	n.names = map[string]*Value{}
	for k, v := range sc.names {
		n.names[k] = v
	}
	return &n
}

type specErr struct{ msg string }

func (vc *VC) specFail(sc *SpecScope, f string, a ...any) {
	panic(specErr{fmt.Sprintf("%s: %s", sc.where, fmt.Sprintf(f, a...))})
}

func (vc *VC) evalSpecIntIn(sc *SpecScope, e SExpr) string {
	vc.specMode++
	defer func() { vc.specMode-- }()
	v := vc.evalSpec(sc, e)
	if v.K != VInt {
		vc.specFail(sc, "integer expected: %s", e)
	}
	return v.Term
}

func (vc *VC) evalSpecBoolIn(sc *SpecScope, e SExpr) string {
	vc.specMode++
	defer func() { vc.specMode-- }()
	v := vc.evalSpec(sc, e)
	if v.K != VBool {
		vc.specFail(sc, "boolean expected: %s", e)
	}
	return v.Term
}

// function-level helpers: invariants/asserts (names resolved among locals)
func (vc *VC) fnScope(st *State) *SpecScope {
	return &SpecScope{cur: st, old: vc.entry, names: map[string]*Value{}, oldNames: vc.entryVals, pkg: vc.pkg, useEnv: true, where: vc.fname}
}

func (vc *VC) evalSpecBool(st *State, e SExpr) string {
	return vc.evalSpecBoolIn(vc.fnScope(st), e)
}

func (vc *VC) evalSpecInt(st *State, e SExpr) string {
	vc.specMode++
	defer func() { vc.specMode-- }()
	v := vc.evalSpec(vc.fnScope(st), e)
	if v.K != VInt {
		vc.specFail(vc.fnScope(st), "integer expected: %s", e)
	}
	return v.Term
}

func (vc *VC) lookupLocal(sc *SpecScope, name string) *Value {
	es := sc.cur
	if sc.envState != nil {
		es = sc.envState
	}
	if h := vc.hidden[name]; h != nil {
		if v := es.env[h]; v != nil {
			return v
		}
	}
	if name == "self" && vc.fd != nil && vc.fd.Recv != nil {
		// the receiver, whatever a local of the same name as the receiver shadows
		for _, f := range vc.fd.Recv.List {
			for _, id := range f.Names {
				if obj := vc.pkg.P.TypesInfo.Defs[id]; obj != nil && es.env[obj] != nil {
					return vc.evalIdentObj(es, obj)
				}
			}
		}
	}
	var best types.Object
	for obj := range es.env {
		if obj.Name() != name || obj.Pkg() != vc.pkg.P.Types {
			continue
		}
		if best == nil || obj.Pos() > best.Pos() {
			best = obj
		}
	}
	if best == nil {
		if nn := vc.renamedLocal(name); nn != "" && nn != name {
			vc.depsUsed["contract identifier "+name+" resolved to the local "+nn+" (same declaration position and type as on the baseline tree: renamed local)"] = true
			return vc.lookupLocal(sc, nn)
		}
		return nil
	}
	return vc.evalIdentObj(es, best)
}

// renamedLocal: a contract names a local that no longer exists. When the function declares the same number of variables
// with the same types in the same order as on the baseline tree, the local at the position the name had there is meant.
func (vc *VC) renamedLocal(name string) string {
	if vc.fd == nil {
		return ""
	}
	if baseLocals == nil {
		loadBaseLocals()
	}
	base := baseLocals[vc.fname]
	cur := localDecls(vc.pkg.P.TypesInfo, vc.fd)
	if len(base) == 0 || len(base) != len(cur) {
		return ""
	}
	for i := range base {
		if base[i].Type != cur[i].Type {
			return ""
		}
	}
	for i := len(base) - 1; i >= 0; i-- {
		if base[i].Name == name {
			return cur[i].Name
		}
	}
	return ""
}

func (vc *VC) resolveType(sc *SpecScope, name string) types.Type {
	ptr := 0
	for strings.HasPrefix(name, "*") {
		name = name[1:]
		ptr++
	}
	var T types.Type
	if strings.HasPrefix(name, "[]") {
		T = types.NewSlice(vc.resolveType(sc, name[2:]))
	} else if i := strings.Index(name, "."); i >= 0 {
		if p := vc.importedPkg(sc, name[:i]); p != nil {
			if o := p.Scope().Lookup(name[i+1:]); o != nil {
				T = o.Type()
			}
		}
	} else if o := types.Universe.Lookup(name); o != nil {
		T = o.Type()
	} else if sc.pkg != nil {
		if o := sc.pkg.P.Types.Scope().Lookup(name); o != nil {
			T = o.Type()
		}
	}
	if T == nil {
		return nil
	}
	for ; ptr > 0; ptr-- {
		T = types.NewPointer(T)
	}
	return T
}

func (vc *VC) importedPkg(sc *SpecScope, name string) *types.Package {
	if sc.pkg == nil {
		return nil
	}
	for _, imp := range sc.pkg.P.Types.Imports() {
		if imp.Name() == name {
			return imp
		}
	}
	// also allow any loaded package by its name (dep specs)
	for _, pi := range vc.w.Pkgs {
		if pi.P.Types.Name() == name {
			return pi.P.Types
		}
	}
	return nil
}

func (vc *VC) evalSpec(sc *SpecScope, e SExpr) *Value {
	switch x := e.(type) {
	case *SInt:
		return intV(x.V, nil)
	case *SBool:
		if x.V {
			return boolV("true")
		}
		return boolV("false")
	case *SStr:
		return intV(vc.strLit(x.V), types.Typ[types.String])
	case *SIdent:
		return vc.specIdent(sc, x.Name)
	case *SUnary:
		v := vc.evalSpec(sc, x.X)
		if x.Op == "!" {
			return boolV(smtNot(v.Term))
		}
		return intV(app("-", v.Term), v.T)
	case *SBinary:
		return vc.specBinary(sc, x)
	case *SSel:
		// package-qualified name?
		if id, ok := x.X.(*SIdent); ok {
			if _, bound := sc.names[id.Name]; !bound && (!sc.useEnv || vc.lookupLocal(sc, id.Name) == nil) {
				if p := vc.importedPkg(sc, id.Name); p != nil && (sc.pkg == nil || sc.pkg.P.Types.Scope().Lookup(id.Name) == nil) {
					if o := p.Scope().Lookup(x.Name); o != nil {
						return vc.specObject(sc, o)
					}
					vc.specFail(sc, "unknown %s.%s", id.Name, x.Name)
				}
			}
		}
		v := vc.evalSpec(sc, x.X)
		return vc.specField(sc, v, x.Name)
	case *SIndex:
		b := vc.evalSpec(sc, x.X)
		i := vc.evalSpec(sc, x.I)
		return vc.specIndex(sc, b, i)
	case *SSlice:
		b := vc.evalSpec(sc, x.X)
		lo := "0"
		if x.Lo != nil {
			lo = vc.evalSpec(sc, x.Lo).Term
		}
		if b.K == VSlice {
			hi := b.Len
			if x.Hi != nil {
				hi = vc.evalSpec(sc, x.Hi).Term
			}
			return &Value{K: VSlice, T: b.T, Arr: b.Arr, Off: app("+", b.Off, lo), Len: app("-", hi, lo), Cap: app("-", b.Cap, lo)}
		}
		if isString(b.T) {
			hi := app("strlen", b.Term)
			if x.Hi != nil {
				hi = vc.evalSpec(sc, x.Hi).Term
			}
			return vc.substr(sc.cur, b.Term, lo, hi, b.T)
		}
		vc.specFail(sc, "slice of non-slice %s", x)
	case *SCall:
		return vc.specCall(sc, x)
	case *SQuant:
		return vc.specQuant(sc, x)
	}
	vc.specFail(sc, "unsupported spec expression %s", e)
	return nil
}

func (vc *VC) specIdent(sc *SpecScope, name string) *Value {
	if v, ok := sc.names[name]; ok {
		return v
	}
	if name == "nil" {
		return intV("0", nil)
	}
	if sc.useEnv {
		if v := vc.lookupLocal(sc, name); v != nil {
			return v
		}
	}
	if g, ok := sc.cur.ghost[name]; ok {
		return intV(g, nil)
	}
	if sc.pkg != nil {
		if o := sc.pkg.P.Types.Scope().Lookup(name); o != nil {
			return vc.specObject(sc, o)
		}
	}
	if o := types.Universe.Lookup(name); o != nil {
		if c, ok := o.(*types.Const); ok {
			if v := vc.constValue(types.TypeAndValue{Type: c.Type(), Value: c.Val()}); v != nil {
				return v
			}
		}
	}
	vc.specFail(sc, "unknown identifier %q", name)
	return nil
}

func (vc *VC) specObject(sc *SpecScope, o types.Object) *Value {
	switch x := o.(type) {
	case *types.Const:
		if v := vc.constValue(types.TypeAndValue{Type: x.Type(), Value: x.Val()}); v != nil {
			return v
		}
	case *types.Var:
		return vc.globalVar(sc.cur, x)
	case *types.Func:
		return &Value{K: VInt, Term: "fn_" + mangle(x.FullName()), T: x.Type(), Fn: &FuncVal{Decl: x}}
	}
	vc.specFail(sc, "cannot use %s in a spec", o.Name())
	return nil
}

// ghostLoc: the heap location of ghost field `name` of the object v (pointer or interface value).
func (vc *VC) ghostField(sc *SpecScope, v *Value, name string) (comp string, T types.Type) {
	if v.K != VInt || v.T == nil {
		vc.specFail(sc, "ghost field %s of a non-object value", name)
	}
	T0 := v.T
	if p, ok := under(T0).(*types.Pointer); ok {
		T0 = p.Elem()
	}
	n := namedOf(T0)
	if n == nil {
		vc.specFail(sc, "ghost field %s on unnamed type %s", name, T0)
	}
	key := n.Obj().Pkg().Path() + "." + n.Obj().Name() + "." + name
	g := vc.w.Ghosts[key]
	if g == nil && isInterface(T0) {
		// an interface value viewed through another interface type: the ghost field is found by name if unique
		for k, cand := range vc.w.Ghosts {
			if cand.Name == name {
				if g != nil {
					vc.specFail(sc, "ambiguous ghost field %s", name)
				}
				g = cand
				key = k
			}
		}
	}
	if g == nil {
		vc.specFail(sc, "undeclared ghost field %s", key)
	}
	gsc := &SpecScope{cur: sc.cur, pkg: vc.w.Pkgs[g.Pkg], where: sc.where}
	if gsc.pkg == nil {
		gsc.pkg = sc.pkg
	}
	GT := vc.resolveType(gsc, g.TypeName)
	if GT == nil {
		vc.specFail(sc, "ghost field %s: unknown type %s", key, g.TypeName)
	}
	return "ghost:" + key, GT
}

func (vc *VC) specField(sc *SpecScope, v *Value, name string) *Value {
	if strings.HasPrefix(name, "$") {
		comp, GT := vc.ghostField(sc, v, name)
		ref := v.Term
		return vc.loadShape(sc.cur, comp, GT, 1, func(h string) string { return sel(h, ref) })
	}
	if v.K == VSlice {
		switch name {
		case "arr":
			return intV(v.Arr, nil)
		case "off":
			return intV(v.Off, nil)
		case "len":
			return intV(v.Len, nil)
		case "cap":
			return intV(v.Cap, nil)
		}
	}
	if v.K == VStruct {
		if f := v.Fields[name]; f != nil {
			return f
		}
		// promoted through embedded fields
		if v.T != nil {
			if obj, idx, _ := types.LookupFieldOrMethod(v.T, true, vc.pkgOf(sc), name); obj != nil {
				return vc.walkFields(sc, v, v.T, idx)
			}
		}
		vc.specFail(sc, "no field %s", name)
	}
	if v.T == nil {
		vc.specFail(sc, "field %s of untyped value", name)
	}
	obj, idx, _ := types.LookupFieldOrMethod(v.T, true, vc.pkgOf(sc), name)
	if obj == nil {
		// unexported field of another package: look up manually
		if idx2 := findField(v.T, name); idx2 != nil {
			return vc.walkFields(sc, v, v.T, idx2)
		}
		vc.specFail(sc, "no field %s in %s", name, v.T)
	}
	if _, isVar := obj.(*types.Var); !isVar {
		vc.specFail(sc, "%s is not a field", name)
	}
	return vc.walkFields(sc, v, v.T, idx)
}

func findField(T types.Type, name string) []int {
	if p, ok := under(T).(*types.Pointer); ok {
		T = p.Elem()
	}
	s, ok := under(T).(*types.Struct)
	if !ok {
		return nil
	}
	for i := 0; i < s.NumFields(); i++ {
		if s.Field(i).Name() == name {
			return []int{i}
		}
	}
	for i := 0; i < s.NumFields(); i++ {
		if s.Field(i).Embedded() {
			if sub := findField(s.Field(i).Type(), name); sub != nil {
				return append([]int{i}, sub...)
			}
		}
	}
	return nil
}

func (vc *VC) pkgOf(sc *SpecScope) *types.Package {
	if sc.pkg != nil {
		return sc.pkg.P.Types
	}
	return nil
}

func (vc *VC) walkFields(sc *SpecScope, v *Value, T types.Type, idx []int) *Value {
	for _, i := range idx {
		if p, ok := under(T).(*types.Pointer); ok {
			sT := under(p.Elem()).(*types.Struct)
			f := sT.Field(i)
			v = vc.loadField(sc.cur, v.Term, p.Elem(), f.Name(), f.Type())
			T = f.Type()
			continue
		}
		sT := under(T).(*types.Struct)
		f := sT.Field(i)
		v = v.Fields[f.Name()]
		T = f.Type()
	}
	return v
}

func (vc *VC) specIndex(sc *SpecScope, b, i *Value) *Value {
	if b.K == VSlice {
		var et types.Type
		if s, ok := under(b.T).(*types.Slice); ok {
			et = s.Elem()
		} else {
			vc.specFail(sc, "index of untyped slice")
		}
		return vc.loadElem(sc.cur, b, i.Term, et)
	}
	if b.T != nil {
		if isString(b.T) {
			return intV(app("strat", b.Term, i.Term), types.Typ[types.Uint8])
		}
		if m, ok := under(b.T).(*types.Map); ok {
			kt, ok := scalarOf(i)
			if !ok {
				vc.specFail(sc, "composite map key")
			}
			// in specs m[k] is the stored value (unspecified outside the domain; guard with in(m, k))
			mref := b.Term
			return vc.loadShape(sc.cur, mapCompPrefix(b.T)+".val", m.Elem(), 2, func(h string) string { return sel2(h, mref, kt) })
		}
	}
	vc.specFail(sc, "cannot index %v", b)
	return nil
}

func (vc *VC) specBinary(sc *SpecScope, x *SBinary) *Value {
	switch x.Op {
	case "&&":
		a := vc.evalSpec(sc, x.X)
		b := vc.evalSpec(sc, x.Y)
		return boolV(smtAnd(a.Term, b.Term))
	case "||":
		a := vc.evalSpec(sc, x.X)
		b := vc.evalSpec(sc, x.Y)
		return boolV(smtOr(a.Term, b.Term))
	case "==>":
		a := vc.evalSpec(sc, x.X)
		b := vc.evalSpec(sc, x.Y)
		return boolV(smtImp(a.Term, b.Term))
	case "<==>":
		a := vc.evalSpec(sc, x.X)
		b := vc.evalSpec(sc, x.Y)
		return boolV(smtEq(a.Term, b.Term))
	}
	a := vc.evalSpec(sc, x.X)
	b := vc.evalSpec(sc, x.Y)
	switch x.Op {
	case "==":
		return boolV(vc.specEq(a, b))
	case "!=":
		return boolV(smtNot(vc.specEq(a, b)))
	case "<", "<=", ">", ">=":
		return boolV(app(x.Op, a.Term, b.Term))
	case "+":
		if a.T != nil && isString(a.T) {
			return intV(app("strcat", a.Term, b.Term), a.T)
		}
		return intV(app("+", a.Term, b.Term), nil)
	case "-":
		return intV(app("-", a.Term, b.Term), nil)
	case "*":
		return intV(app("*", a.Term, b.Term), nil)
	case "/":
		return intV(app("div", a.Term, b.Term), nil)
	case "%":
		return intV(app("mod", a.Term, b.Term), nil)
	}
	vc.specFail(sc, "operator %s", x.Op)
	return nil
}

func (vc *VC) specEq(a, b *Value) string {
	if a.K == VSlice && b.K == VInt && b.Term == "0" {
		return smtEq(a.Arr, "0")
	}
	if b.K == VSlice && a.K == VInt && a.Term == "0" {
		return smtEq(b.Arr, "0")
	}
	if a.K == VBool && b.K == VBool {
		return smtEq(a.Term, b.Term)
	}
	return vc.valueEq(a, b)
}

func (vc *VC) specQuant(sc *SpecScope, x *SQuant) *Value {
	inner := sc.child()
	// evaluate the body on a clone so that assumptions produced while reading typed heap cells
	// (ranges) stay inside the quantifier
	tmp := sc.cur.clone()
	n := len(tmp.pc)
	inner.cur = tmp
	var binders []string
	var boundNames []string
	for _, v := range x.Vars {
		bn := fmt.Sprintf("%s!%d", v.Name, vc.qdepth)
		boundNames = append(boundNames, bn)
		T := vc.resolveType(sc, v.Type)
		srt := "Int"
		if T != nil && shapeOf(T) == shBool {
			srt = "Bool"
			inner.names[v.Name] = &Value{K: VBool, T: T, Term: bn}
		} else {
			inner.names[v.Name] = wrapScalar(T, bn)
		}
		binders = append(binders, "("+bn+" "+srt+")")
		// typed binders range over their type
		if T != nil && v.Type != "int" && v.Type != "int64" {
			if lo, hi, ok := intRange(T); ok {
				tmp.assume(app("<=", lo, bn, hi))
			}
		}
	}
	vc.qdepth++
	body := vc.evalSpec(inner, x.Body)
	vc.qdepth--
	if body.K != VBool {
		vc.specFail(sc, "quantifier body must be boolean")
	}
	// facts about typed heap cells read inside the body: those that mention a bound variable stay inside
	// the quantifier, the others are facts of the enclosing state
	var local []string
	seenF := map[string]bool{}
	for _, f := range tmp.pc[n:] {
		if seenF[f] {
			continue
		}
		seenF[f] = true
		mentions := false
		for _, b := range boundNames {
			if strings.Contains(f, b) {
				mentions = true
				break
			}
		}
		if mentions {
			local = append(local, f)
		} else {
			sc.cur.assume(f)
		}
	}
	facts := smtAnd(local...)
	var t string
	var qbody string
	if x.Forall {
		qbody = smtImp(facts, body.Term)
	} else {
		qbody = smtAnd(facts, body.Term)
	}
	var parts []string
	if len(x.Triggers) > 0 {
		var ts []string
		for _, tr := range x.Triggers {
			tv := vc.evalSpec(inner, tr)
			if tt, ok := scalarOf(tv); ok {
				ts = append(ts, tt)
			}
		}
		qb := "(! " + qbody + " :pattern (" + strings.Join(ts, " ") + ") :qid " + qidOf(x) + ")"
		kw := "exists"
		if x.Forall {
			kw = "forall"
		}
		return boolV("(" + kw + " (" + strings.Join(binders, " ") + ") " + qb + ")")
	}
	for _, variant := range normalizeQuant(qbody, boundNames) {
		if pats := inferPatterns(variant, boundNames); pats != "" && variant != "true" && variant != "false" {
			variant = "(! " + variant + " " + pats + " :qid " + qidOf(x) + ")"
		}
		if x.Forall {
			parts = append(parts, "(forall ("+strings.Join(binders, " ")+") "+variant+")")
		} else {
			parts = append(parts, "(exists ("+strings.Join(binders, " ")+") "+variant+")")
		}
	}
	t = smtAnd(parts...)
	return boolV(t)
}

func (vc *VC) specCall(sc *SpecScope, x *SCall) *Value {
	args := func() []*Value {
		var vs []*Value
		for _, a := range x.Args {
			vs = append(vs, vc.evalSpec(sc, a))
		}
		return vs
	}
	if id, ok := x.Fun.(*SIdent); ok {
		_, shadow := sc.names[id.Name]
		if !shadow {
			switch id.Name {
			case "old":
				o := *sc
				o.cur = sc.old
				if sc.oldNames != nil {
					o.names = map[string]*Value{}
					for k, v := range sc.names {
						o.names[k] = v
					}
					for k, v := range sc.oldNames {
						o.names[k] = v
					}
				}
				if o.cur == nil {
					vc.specFail(sc, "old() without an old state")
				}
				// names that are neither parameters nor results (locals, closure parameters) keep their current value
				if sc.useEnv && o.envState == nil {
					o.envState = sc.cur
				}
				return vc.evalSpec(&o, x.Args[0])
			case "len":
				a := args()[0]
				if a.K == VSlice {
					return intV(a.Len, types.Typ[types.Int])
				}
				if a.T != nil {
					if _, ok := under(a.T).(*types.Map); ok {
						return intV(vc.mapLen(sc.cur, a.T, a.Term), types.Typ[types.Int])
					}
				}
				return intV(app("strlen", a.Term), types.Typ[types.Int])
			case "cap":
				return intV(args()[0].Cap, types.Typ[types.Int])
			case "in":
				as := args()
				m, k := as[0], as[1]
				if m.T == nil {
					vc.specFail(sc, "in(): untyped map")
				}
				dom := vc.heapGet(sc.cur, mapCompPrefix(m.T)+".dom", "(Array Int (Array Int Bool))")
				kt, ok := scalarOf(k)
				if !ok {
					vc.specFail(sc, "in(): composite map key")
				}
				return boolV(smtAnd(smtNot(smtEq(m.Term, "0")), sel2(dom, m.Term, kt)))
			case "fresh":
				a := args()[0]
				oldAlloc := "Alloc0"
				if sc.old != nil {
					oldAlloc = sc.old.alloc
				}
				t := a.Term
				if a.K == VSlice {
					t = a.Arr
				} else if a.K != VInt {
					vc.specFail(sc, "fresh() of a value that is not a reference")
				}
				return boolV(smtAnd(smtNot(smtEq(t, "0")), smtNot(sel(oldAlloc, t)), sel(sc.cur.alloc, t)))
			case "allocated":
				a := args()[0]
				return boolV(sel(sc.cur.alloc, a.Term))
			case "ite":
				as := args()
				return vc.iteValue(as[0].Term, as[1], as[2])
			case "min", "max":
				as := args()
				op := "<="
				if id.Name == "max" {
					op = ">="
				}
				return intV(smtIte(app(op, as[0].Term, as[1].Term), as[0].Term, as[1].Term), nil)
			case "sameSlice":
				as := args()
				return boolV(smtAnd(smtEq(as[0].Arr, as[1].Arr), smtEq(as[0].Off, as[1].Off), smtEq(as[0].Len, as[1].Len)))
			case "sliceOf":
				// sliceOf(a, b, i, j): a is b[i:j] (same backing array)
				as := args()
				return boolV(smtAnd(smtEq(as[0].Arr, as[1].Arr), smtEq(as[0].Off, app("+", as[1].Off, as[2].Term)), smtEq(as[0].Len, app("-", as[3].Term, as[2].Term))))
			case "nilOrFresh":
				// a slice that is either nil (and empty) or lives in a backing array allocated by this call
				a := args()[0]
				oldAlloc := "Alloc0"
				if sc.old != nil {
					oldAlloc = sc.old.alloc
				}
				return boolV(smtOr(smtAnd(smtEq(a.Arr, "0"), smtEq(a.Len, "0")), smtAnd(smtNot(smtEq(a.Arr, "0")), smtNot(sel(oldAlloc, a.Arr)), sel(sc.cur.alloc, a.Arr))))
			case "isnil":
				a := args()[0]
				if a.K == VSlice {
					return boolV(smtEq(a.Arr, "0"))
				}
				return boolV(smtEq(a.Term, "0"))
			case "unchanged":
				cur := vc.evalSpec(sc, x.Args[0])
				oldc := &SCall{Fun: &SIdent{"old"}, Args: x.Args}
				ov := vc.evalSpec(sc, oldc)
				return boolV(vc.deepEq(sc, cur, sc.cur, ov, sc.old))
			case "sameOutside":
				// sameOutside(s): every cell of s's backing array outside s[0:len(s)] has its old value
				a := args()[0]
				if a.K != VSlice || sc.old == nil {
					vc.specFail(sc, "sameOutside needs a slice and an old state")
				}
				et := under(a.T).(*types.Slice).Elem()
				var cs []string
				vc.leafComps(elemCompPrefix(et), et, 2, func(comp, srt string) {
					cur := vc.heapGet(sc.cur, comp, srt)
					old := vc.heapGet(sc.old, comp, srt)
					cs = append(cs, "(forall ((i!o Int)) (! (=> (or (< i!o "+a.Off+") (>= i!o (+ "+a.Off+" "+a.Len+"))) (= (select "+cur+" (pr "+a.Arr+" i!o)) (select "+old+" (pr "+a.Arr+" i!o)))) :pattern ((select "+cur+" (pr "+a.Arr+" i!o))) :qid sameOutside))")
				})
				return boolV(smtAnd(cs...))
			case "seqEq":
				as := args()
				return boolV(vc.deepEq(sc, as[0], sc.cur, as[1], sc.cur))
			case "typeIs":
				// typeIs(x, T): dynamic type of interface value x is T
				a := vc.evalSpec(sc, x.Args[0])
				tn := x.Args[1].String()
				T := vc.resolveType(sc, strings.Trim(tn, "\""))
				if T == nil {
					vc.specFail(sc, "unknown type %s", tn)
				}
				return boolV(smtAnd(smtNot(smtEq(a.Term, "0")), smtEq(app("typeof", a.Term), vc.typeTag(T))))
			case "dyn":
				// dyn(x, T): the value of dynamic type T stored in interface x
				a := vc.evalSpec(sc, x.Args[0])
				T := vc.resolveType(sc, strings.Trim(x.Args[1].String(), "\""))
				return intV(app("ptrof", a.Term), T)
			case "iface":
				// iface(p, T): pointer p of type T boxed into an interface
				a := vc.evalSpec(sc, x.Args[0])
				if len(x.Args) == 1 {
					// iface(v): the value v (of its static Go type) boxed into an interface
					if a.T == nil {
						vc.specFail(sc, "iface(v): the Go type of %s is not known", x.Args[0])
					}
					return vc.toInterface(sc.cur, a, a.T, nil)
				}
				T := vc.resolveType(sc, strings.Trim(x.Args[1].String(), "\""))
				if T == nil {
					vc.specFail(sc, "unknown type %s", x.Args[1])
				}
				return intV(app("mkiface", vc.typeTag(T), a.Term), nil)
			case "boxed":
				// boxed(v, "I"): the value v (of its static Go type) converted to the interface type I
				a := vc.evalSpec(sc, x.Args[0])
				IT := vc.resolveType(sc, strings.Trim(x.Args[1].String(), "\""))
				if IT == nil || a.T == nil {
					vc.specFail(sc, "boxed(v, \"I\"): unknown type")
				}
				r := vc.toInterface(sc.cur, a, a.T, IT)
				r.T = IT
				return r
			case "errIs":
				as := args()
				vc.declareErrIs()
				return boolV(app("errIs", as[0].Term, as[1].Term))
			case "deref":
				// deref(p): the cell a pointer obtained with & points to
				a := args()[0]
				if a.Addr == nil {
					vc.specFail(sc, "deref of a pointer whose target is not statically known")
				}
				return vc.load(sc.cur, *a.Addr)
			case "qmarks":
				return intV(app("qmarks", args()[0].Term), nil)
			case "fmtHas":
				// fmtHas(q, "text"): q was built by fmt.Sprintf from a constant format that contains the text
				// (decided on the constant; unknown for any other string)
				a := vc.evalSpec(sc, x.Args[0])
				lit, ok := x.Args[1].(*SStr)
				if !ok {
					vc.specFail(sc, "fmtHas(q, \"literal\")")
				}
				needle := lit.V
				if f, ok := vc.fmtOf[a.Term]; ok {
					if strings.Contains(f, needle) {
						return boolV("true")
					}
					return boolV("false")
				}
				if s, ok := vc.litOfTerm(a.Term); ok {
					if strings.Contains(s, needle) {
						return boolV("true")
					}
					return boolV("false")
				}
				return boolV(vc.fresh("fmtHas", "Bool"))
			case "isBytesOf":
				// isBytesOf(b, s): the byte slice b holds exactly the bytes of the string s
				as := args()
				b, str := as[0], as[1]
				if b.K != VSlice {
					vc.specFail(sc, "isBytesOf(b, s): b must be a byte slice")
				}
				h := vc.heapGet(sc.cur, elemCompPrefix(under(b.T).(*types.Slice).Elem()), sortAt("Int", 2))
				iv := fmt.Sprintf("ib!%d", vc.qdepth)
				body := smtImp(smtAnd(app("<=", "0", iv), app("<", iv, b.Len)), smtEq(sel2(h, b.Arr, offIdx(b.Off, iv)), app("strat", str.Term, iv)))
				return boolV(smtAnd(smtEq(b.Len, app("strlen", str.Term)), "(forall (("+iv+" Int)) (! "+body+" :pattern ("+app("strat", str.Term, iv)+")))"))
			case "sqlverb":
				// sqlverb(q): 1 SELECT, 2 INSERT, 3 UPDATE, 4 DELETE, 5 CREATE, 6 DROP, 7 ALTER, 8 PRAGMA, 0 anything else
				vc.declareFun("sqlverb", "(Int) Int")
				return intV(app("sqlverb", args()[0].Term), nil)
			case "str":
				// str(b): the string made of the bytes of slice b
				a := args()[0]
				return vc.bytesToString(sc.cur, a, types.Typ[types.String])
			}
		}
		// spec predicate / function
		if !shadow {
			pkgPath := ""
			if sc.pkg != nil {
				pkgPath = sc.pkg.Path
			}
			if sc.predPkg != "" {
				if pd := vc.w.findPred(sc.predPkg, id.Name); pd != nil {
					return vc.applyPred(sc, pd, args())
				}
			}
			if pd := vc.w.findPred(pkgPath, id.Name); pd != nil {
				return vc.applyPred(sc, pd, args())
			}
		}
	}
	// qualified predicate pkg.pred(...)
	if s, ok := x.Fun.(*SSel); ok {
		if id, ok := s.X.(*SIdent); ok {
			if p := vc.importedPkg(sc, id.Name); p != nil {
				if pd := vc.w.findPred(p.Path(), s.Name); pd != nil {
					return vc.applyPred(sc, pd, args())
				}
			}
		}
	}
	// a Go function or function value applied in a spec: evaluated as a pure function
	fv := vc.evalSpec(sc, x.Fun)
	as := args()
	return vc.specApply(sc, fv, as, x)
}

func (vc *VC) declareErrIs() {
	vc.declareFun("errIs", "(Int Int) Bool")
	vc.addAxiomKeyed([]string{"errIs"}, "(forall ((e Int)) (! (=> (not (= e 0)) (errIs e e)) :pattern ((errIs e e))))")
	vc.addAxiomKeyed([]string{"errIs"}, "(forall ((t Int)) (! (=> (not (= t 0)) (not (errIs 0 t))) :pattern ((errIs 0 t))))")
}

func (vc *VC) applyPred(sc *SpecScope, pd *PredDef, args []*Value) *Value {
	if len(args) != len(pd.Params) {
		vc.specFail(sc, "predicate %s: %d arguments expected", pd.Name, len(pd.Params))
	}
	if pd.Uninterp {
		var ts, sorts []string
		for _, a := range args {
			t, ok := scalarOf(a)
			if !ok && a.K == VStruct && a.T != nil {
				// a struct of scalars is passed as its injective tuple
				if p := vc.packStruct(a, a.T); p != "" {
					t, ok = p, true
				}
			}
			if !ok {
				vc.specFail(sc, "ufunc %s: composite argument", pd.Name)
			}
			ts = append(ts, t)
			sorts = append(sorts, "Int")
		}
		name := "spec_" + mangle(pd.Name)
		if pd.Ret == "bool" {
			vc.declareFun(name, "("+strings.Join(sorts, " ")+") Bool")
			return boolV(app(name, ts...))
		}
		vc.declareFun(name, "("+strings.Join(sorts, " ")+") Int")
		vc.useAxiomsFor(sc)
		rT := vc.resolveType(&SpecScope{cur: sc.cur, pkg: vc.w.Pkgs[pd.Pkg]}, pd.Ret)
		return intV(app(name, ts...), rT)
	}
	if vc.predDepth > 8 {
		vc.specFail(sc, "predicate expansion too deep (recursive predicate %s?)", pd.Name)
	}
	n := &SpecScope{cur: sc.cur, old: sc.old, names: map[string]*Value{}, pkg: sc.pkg, predPkg: pd.Pkg, where: sc.where + "/" + pd.Name}
	if pi := vc.w.Pkgs[pd.Pkg]; pi != nil {
		n.pkg = pi
	}
	for i, p := range pd.Params {
		a := args[i]
		if T := vc.resolveType(n, p.Type); T != nil && (a.T == nil) {
			a = vc.withType(a, T)
		}
		n.names[p.Name] = a
	}
	vc.predDepth++
	defer func() { vc.predDepth-- }()
	return vc.evalSpec(n, pd.Body)
}

// specApply applies a function value inside a spec: known closures / repo functions are evaluated
// on a scratch copy of the state (pure view); unknown ones are uninterpreted.
func (vc *VC) specApply(sc *SpecScope, fv *Value, args []*Value, x *SCall) *Value {
	if fv.Fn == nil {
		if fv.T != nil {
			if sig, ok := under(fv.T).(*types.Signature); ok && sig.Results().Len() == 1 {
				return vc.fnApp(nil, fv.Term, sig.Results().At(0).Type(), args)
			}
		}
		vc.specFail(sc, "cannot apply %s", x.Fun)
	}
	tmp := sc.cur.clone()
	n := len(tmp.pc)
	var rs []*Value
	savedInfo, savedPkg := vc.curInfo, vc.curPkg
	defer func() { vc.curInfo, vc.curPkg = savedInfo, savedPkg }()
	if fv.Fn.Lit != nil {
		sig := fv.Fn.Pkg.P.TypesInfo.TypeOf(fv.Fn.Lit).(*types.Signature)
		// captured variables come from the defining environment
		if fv.Fn.Env != nil {
			for o, v := range fv.Fn.Env.env {
				if _, ok := tmp.env[o]; !ok {
					tmp.env[o] = v
				}
			}
		}
		rs = vc.inlineCall(tmp, fv.Fn.Lit, fv.Fn.Pkg, fv.Fn.Lit.Type, fv.Fn.Lit.Body, nil, sig, nil, args, nil)
	} else {
		d := fv.Fn.Decl
		pi := vc.w.Pkgs[d.Pkg().Path()]
		if pi == nil || pi.Decl[d.Origin()] == nil {
			vc.specFail(sc, "function %s has no body in the loaded packages", d.FullName())
		}
		fd := pi.Decl[d.Origin()]
		rs = vc.inlineCall(tmp, fd, pi, fd.Type, fd.Body, d.Origin(), d.Type().(*types.Signature), fv.Fn.Recv, args, fd.Recv)
	}
	if len(rs) != 1 {
		vc.specFail(sc, "spec application must return one value")
	}
	// facts produced while evaluating (definitions of merged results) are needed by the caller
	for _, f := range tmp.pc[n:] {
		sc.cur.assume(f)
	}
	return rs[0]
}

// deepEq: equality of values where slices are compared by length and contents.
func (vc *VC) deepEq(sc *SpecScope, a *Value, sa *State, b *Value, sb *State) string {
	switch a.K {
	case VSlice:
		if b.K != VSlice {
			return "false"
		}
		var et types.Type
		if s, ok := under(a.T).(*types.Slice); ok {
			et = s.Elem()
		} else {
			return vc.valueEq(a, b)
		}
		vc.nbound++
		bn := fmt.Sprintf("q!%d", vc.nbound)
		ta := sa.clone()
		tb := sb.clone()
		ea := vc.loadElem(ta, a, bn, et)
		eb := vc.loadElem(tb, b, bn, et)
		return smtAnd(smtEq(a.Len, b.Len),
			"(forall (("+bn+" Int)) (=> (and (<= 0 "+bn+") (< "+bn+" "+a.Len+")) "+vc.valueEq(ea, eb)+"))")
	case VStruct:
		var cs []string
		for _, f := range a.FOrder {
			cs = append(cs, vc.deepEq(sc, a.Fields[f], sa, b.Fields[f], sb))
		}
		return smtAnd(cs...)
	}
	return vc.valueEq(a, b)
}

var _ = ast.Inspect

func qidOf(x *SQuant) string {
	t := x.String()
	if len(t) > 40 {
		t = t[:40]
	}
	return "q_" + mangle(t)
}

// useAxiomsFor evaluates the declared spec axioms (facts about uninterpreted spec functions) once per VC;
// the relevance filter keeps them out of queries that do not mention their symbols.
func (vc *VC) useAxiomsFor(sc *SpecScope) {
	if vc.axiomsLoaded {
		return
	}
	vc.axiomsLoaded = true
	for _, ax := range vc.w.Axioms {
		pi := vc.w.Pkgs[ax.Pkg]
		if pi == nil {
			pi = vc.pkg
		}
		tmp := &State{env: map[types.Object]*Value{}, heap: map[string]string{}, alloc: "Alloc0", ghost: map[string]string{}}
		t := vc.evalSpecBoolIn(&SpecScope{cur: tmp, names: map[string]*Value{}, pkg: pi, predPkg: ax.Pkg, where: "axiom " + ax.Text}, ax.Body)
		vc.addAxiom(t)
		vc.assumptions["spec axiom: "+ax.Text] = true
	}
}

func offIdx(off, i string) string {
	if off == "0" {
		return i
	}
	return app("+", off, i)
}

package main

import (
	"context"
	"encoding/json"
	"fmt"
	"os"
	"os/exec"
	"path/filepath"
	"strings"
	"time"
)

// runOverlayTest injects an in-package test file into /repo/<pkgRel> through `go test -overlay` (nothing is
// written into /repo) and runs the named test. ok = the test FAILED (panic, timeout or t.Fatal): reproduced.
func runOverlayTest(pkgRel, testName, src string) (string, bool) {
	tmp, err := os.MkdirTemp("", "govc-replay")
	if err != nil {
		return err.Error(), false
	}
	defer os.RemoveAll(tmp)
	testFile := filepath.Join(tmp, "zz_verif_replay_test.go")
	os.WriteFile(testFile, []byte(src), 0o644)
	target := filepath.Join(repoDir, pkgRel, "zz_verif_replay_test.go")
	ov := map[string]any{"Replace": map[string]string{target: testFile}}
	data, _ := json.Marshal(ov)
	ovFile := filepath.Join(tmp, "ov.json")
	os.WriteFile(ovFile, data, 0o644)
	ctx, cancel := context.WithTimeout(context.Background(), 180*time.Second)
	defer cancel()
	cmd := exec.CommandContext(ctx, "bash", "-c", fmt.Sprintf("ulimit -v 8000000; cd %s && go test -overlay %s -vet=off -count=1 -timeout 60s -run '^%s$' ./%s", repoDir, ovFile, testName, pkgRel))
	cmd.Env = append(os.Environ(), "GOFLAGS=-mod=mod", "GOPROXY=off", "GOSUMDB=off", "GOTOOLCHAIN=local")
	out, _ := cmd.CombinedOutput()
	s := string(out)
	if len(s) > 6000 {
		s = s[:3000] + "\n...\n" + s[len(s)-3000:]
	}
	failed := strings.Contains(s, "--- FAIL") || strings.Contains(s, "panic:") || strings.Contains(s, "test timed out") || strings.Contains(s, "FAIL\t")
	built := !strings.Contains(s, "[build failed]") && !strings.Contains(s, "[setup failed]")
	return s, failed && built
}

// tryReplay turns a solver model into a run of the real code, per function shape.
func tryReplay(w *World, o *Obligation, rp *ReplayFile) {
	for _, a := range replayAdaptors {
		if strings.HasPrefix(o.Family, a.prefix) {
			src, pkg, name, ok := a.gen(o, rp)
			if !ok {
				continue
			}
			rp.TestSource, rp.TestPkg, rp.TestName = src, pkg, name
			out, failed := runOverlayTest(pkg, name, src)
			rp.ReplayLog = out
			if failed {
				rp.Outcome = "reproduced"
			} else {
				rp.Outcome = "not-reproduced"
			}
			return
		}
	}
	src, pkg, name, ok, why := genericReplay(w, o, rp)
	if !ok {
		rp.Outcome = "no-adaptor"
		rp.ReplayLog = "no executable replay: " + why
		return
	}
	rp.TestSource, rp.TestPkg, rp.TestName = src, pkg, name
	out, failed := runOverlayTest(pkg, name, src)
	rp.ReplayLog = out
	if failed {
		rp.Outcome = "reproduced"
	} else {
		rp.Outcome = "not-reproduced"
	}
}

type replayAdaptor struct {
	prefix string
	gen    func(o *Obligation, rp *ReplayFile) (src, pkg, name string, ok bool)
}

var replayAdaptors []replayAdaptor

package main

// tryReplay turns a solver model into a run of the real code. Filled in per function shape (adaptors).
func tryReplay(w *World, o *Obligation, rp *ReplayFile) {
	rp.Outcome = "no-adaptor"
}

func runOverlayTest(pkg, name, src string) (string, bool) {
	return "", false
}

package main

import (
	"fmt"
	"go/ast"
	"go/types"
	"strings"
)

// packages whose calls have no effect on the modelled state (logging, metrics, profiling)
var effectFreePkgs = map[string]bool{
	"github.com/sirupsen/logrus":                true,
	"github.com/ProtonMail/gluon/logging":       true,
	"github.com/ProtonMail/gluon/profiling":     true,
	"github.com/ProtonMail/gluon/reporter":      true,
	"github.com/ProtonMail/gluon/observability": true,
	"runtime/pprof":                             true,
}

// standard-library packages whose functions do not write memory reachable from their arguments
// (results are unconstrained unless a dependency spec says more). Listed in the evidence when used.
var pureStdPkgs = map[string]bool{
	"strings": true, "strconv": true, "sync": true, "unicode": true, "unicode/utf8": true, "time": true, "math": true, "math/bits": true,
	"errors": true, "fmt": true, "bytes": true, "path": true, "path/filepath": true, "regexp": true, "net/mail": true, "mime": true,
	"encoding/base64": true, "encoding/hex": true, "crypto/sha256": true, "hash": true, "github.com/google/uuid": true,
	"golang.org/x/text/encoding/ianaindex": true, "golang.org/x/text/encoding": true,
}

func (vc *VC) evalArgs(st *State, call *ast.CallExpr, sig *types.Signature) []*Value {
	var args []*Value
	np := sig.Params().Len()
	if len(call.Args) == 1 && np > 1 {
		if _, isTuple := vc.typeOf(call.Args[0]).(*types.Tuple); isTuple {
			// f(g()) with multi-value g
			return vc.evalMulti(st, call.Args[0], np)
		}
	}
	for i, a := range call.Args {
		var pt types.Type
		if sig.Variadic() && i >= np-1 {
			if call.Ellipsis.IsValid() {
				pt = sig.Params().At(np - 1).Type()
			} else {
				pt = sig.Params().At(np - 1).Type().(*types.Slice).Elem()
			}
		} else if i < np {
			pt = sig.Params().At(i).Type()
		}
		args = append(args, vc.evalExprTo(st, a, pt))
	}
	if sig.Variadic() && !call.Ellipsis.IsValid() {
		// pack the variadic tail into a fresh slice
		vt := sig.Params().At(np - 1).Type().(*types.Slice)
		tail := args[np-1:]
		s := &Value{K: VSlice, T: vt, Arr: "0", Off: "0", Len: "0", Cap: "0"}
		if len(tail) > 0 {
			s.Arr = vc.allocArr(st, "varargs")
			s.Len = fmt.Sprint(len(tail))
			s.Cap = s.Len
			for i, t := range tail {
				vc.storeElem(st, s, fmt.Sprint(i), vt.Elem(), t)
			}
		}
		args = append(append([]*Value(nil), args[:np-1]...), s)
	}
	return args
}

func (vc *VC) evalCall(st *State, call *ast.CallExpr) []*Value {
	if vc.inlineDepth == 0 {
		saved := vc.curCall
		vc.curCall = call
		defer func() { vc.curCall = saved }()
	}
	// conversion?
	if tv, ok := vc.curInfo.Types[call.Fun]; ok && tv.IsType() {
		return []*Value{vc.evalConversion(st, call, tv.Type)}
	}
	fun := ast.Unparen(call.Fun)
	// builtin?
	if id, ok := fun.(*ast.Ident); ok {
		if b, ok := vc.curInfo.Uses[id].(*types.Builtin); ok {
			return vc.evalBuiltin(st, call, b.Name())
		}
	}
	sigT, _ := under(vc.typeOf(call.Fun)).(*types.Signature)
	if sigT == nil {
		vc.unsupported(call, "call of non-function")
	}
	// resolve the callee
	var callee *types.Func
	var recv *Value
	var recvT types.Type
	var fnVal *Value
	switch f := fun.(type) {
	case *ast.Ident:
		switch o := vc.curInfo.Uses[f].(type) {
		case *types.Func:
			callee = o
		default:
			fnVal = vc.evalExpr(st, f)
		}
	case *ast.SelectorExpr:
		if s := vc.curInfo.Selections[f]; s != nil {
			if s.Kind() == types.MethodVal {
				callee = s.Obj().(*types.Func)
				recv, recvT = vc.evalReceiver(st, f, s)
			} else {
				fnVal = vc.evalExpr(st, f) // field of function type
			}
		} else if o, ok := vc.curInfo.Uses[f.Sel].(*types.Func); ok {
			callee = o
		} else {
			fnVal = vc.evalExpr(st, f)
		}
	case *ast.FuncLit:
		fnVal = vc.evalExpr(st, f)
	case *ast.IndexExpr, *ast.IndexListExpr:
		// explicit generic instantiation
		var base ast.Expr
		if ie, ok := f.(*ast.IndexExpr); ok {
			base = ie.X
		} else {
			base = f.(*ast.IndexListExpr).X
		}
		if id := identOf(base); id != nil {
			if o, ok := vc.curInfo.Uses[id].(*types.Func); ok {
				callee = o
			}
		}
		if callee == nil {
			vc.unsupported(call, "call through index expression")
		}
	default:
		fnVal = vc.evalExpr(st, fun)
	}
	args := vc.evalArgs(st, call, sigT)
	if callee != nil {
		return vc.callFunc(st, call, callee, sigT, recv, recvT, args)
	}
	return vc.callValue(st, call, fnVal, sigT, args)
}

// evalReceiver evaluates the receiver expression of a method call and adapts it (address / deref,
// promotion through embedded fields) to the method's receiver type.
func (vc *VC) evalReceiver(st *State, f *ast.SelectorExpr, s *types.Selection) (*Value, types.Type) {
	m := s.Obj().(*types.Func)
	msig := m.Type().(*types.Signature)
	wantPtr := false
	if msig.Recv() != nil {
		_, wantPtr = msig.Recv().Type().(*types.Pointer)
	}
	baseT := vc.typeOf(f.X)
	path := s.Index()[:len(s.Index())-1]
	if isInterface(baseT) && len(path) == 0 {
		return vc.evalExpr(st, f.X), baseT
	}
	if len(path) == 0 {
		if isPointer(baseT) {
			p := vc.evalExpr(st, f.X)
			if wantPtr {
				return p, baseT
			}
			vc.safety(st, "nil", f, smtNot(smtEq(p.Term, "0")))
			el := under(baseT).(*types.Pointer).Elem()
			return vc.load(st, vc.derefLoc(p.Term, el)), el
		}
		if !wantPtr {
			return vc.evalExpr(st, f.X), baseT
		}
		// need the address of an addressable value
		return vc.addressOf(st, f.X), types.NewPointer(baseT)
	}
	// promoted method through embedded fields
	v := vc.evalExpr(st, f.X)
	T := baseT
	for _, idx := range path {
		if p, ok := under(T).(*types.Pointer); ok {
			vc.safety(st, "nil", f, smtNot(smtEq(v.Term, "0")))
			sT := under(p.Elem()).(*types.Struct)
			fl := sT.Field(idx)
			v = vc.loadField(st, v.Term, p.Elem(), fl.Name(), fl.Type())
			T = fl.Type()
			continue
		}
		sT := under(T).(*types.Struct)
		fl := sT.Field(idx)
		v = v.Fields[fl.Name()]
		T = fl.Type()
	}
	if isPointer(T) == wantPtr || isInterface(T) {
		return v, T
	}
	if isPointer(T) && !wantPtr {
		vc.safety(st, "nil", f, smtNot(smtEq(v.Term, "0")))
		el := under(T).(*types.Pointer).Elem()
		return vc.load(st, vc.derefLoc(v.Term, el)), el
	}
	vc.unsupported(f, "address of promoted embedded value receiver")
	return nil, nil
}

func (vc *VC) addressOf(st *State, e ast.Expr) *Value {
	T := vc.typeOf(e)
	switch x := ast.Unparen(e).(type) {
	case *ast.Ident:
		if obj, _ := vc.curInfo.ObjectOf(x).(*types.Var); obj != nil && vc.boxed[obj] {
			return intV(st.env[obj].Term, types.NewPointer(T))
		}
	}
	l := vc.evalLoc(st, e)
	if !l.isVar {
		// interior pointer to a field / element: opaque non-nil pointer that remembers its target
		r := vc.fresh("addr", "Int")
		st.assume(smtNot(smtEq(r, "0")))
		v := intV(r, types.NewPointer(T))
		v.Addr = &l
		return v
	}
	vc.unsupported(e, "address of %s (interior pointer into a local value)", vc.nodeText(e))
	return nil
}

func (vc *VC) sigResults(sig *types.Signature) []types.Type {
	var ts []types.Type
	for i := 0; i < sig.Results().Len(); i++ {
		ts = append(ts, sig.Results().At(i).Type())
	}
	return ts
}

func (vc *VC) havocResults(st *State, hint string, sig *types.Signature) []*Value {
	var rs []*Value
	for i, t := range vc.sigResults(sig) {
		rs = append(rs, vc.freshValue(st, fmt.Sprintf("%s_r%d", hint, i), t))
	}
	return rs
}

func (vc *VC) callFunc(st *State, call *ast.CallExpr, callee *types.Func, sig *types.Signature, recv *Value, recvT types.Type, args []*Value) []*Value {
	origin := callee.Origin()
	pkgPath := ""
	if origin.Pkg() != nil {
		pkgPath = origin.Pkg().Path()
	}
	full := origin.FullName()
	vc.checkCallAsserts(st, call, origin, recv, args)
	// 1. contract
	if c := vc.w.contractFor(origin); c != nil && !c.Inline {
		rs := vc.applyContract(st, call, c, origin, sig, recv, args)
		vc.havocCaptured(st, args)
		return rs
	}
	// 2. intrinsics
	if rs, ok := vc.intrinsic(st, call, full, sig, recv, args); ok {
		return rs
	}
	// a method call on the nil interface panics (context values are taken to be non-nil; a dispatched call checks it itself)
	if recv != nil && isInterface(recvT) && pkgPath != "context" && !effectFreePkgs[pkgPath] {
		if _, isTP := recvT.(*types.TypeParam); !isTP {
			vc.safety(st, "nil", call, smtNot(smtEq(recv.Term, "0")))
		}
	}
	if effectFreePkgs[pkgPath] {
		vc.depsUsed["effect-free (logging/metrics/profiling): "+pkgPath] = true
		return vc.havocResults(st, origin.Name(), sig)
	}
	if pureStdPkgs[pkgPath] {
		vc.depsUsed["no-heap-effect library call (result unconstrained): "+full] = true
		rs := vc.havocResults(st, origin.Name(), sig)
		vc.havocAlloc(st)
		vc.havocCaptured(st, args)
		return rs
	}
	// 3. interface method without contract: unknown implementation
	if recv != nil && isInterface(recvT) {
		if pkgPath == "context" {
			return vc.havocResults(st, origin.Name(), sig)
		}
		if rs, ok := vc.dispatch(st, call, origin, sig, recv, args); ok {
			vc.havocCaptured(st, args)
			return rs
		}
		vc.uncontracted[full+" (interface method)"] = true
		vc.havocAllHeap(st)
		vc.havocCaptured(st, args)
		return vc.havocResults(st, origin.Name(), sig)
	}
	// 4. inline same-module functions
	if pi := vc.w.Pkgs[pkgPath]; pi != nil {
		if fd := pi.Decl[origin]; fd != nil && fd.Body != nil && vc.canInline(fd, origin) {
			return vc.inlineCall(st, call, pi, fd.Type, fd.Body, origin, sig, recv, args, fd.Recv)
		}
	}
	// 5. unknown: havoc everything
	vc.uncontracted[full] = true
	vc.havocAllHeap(st)
	vc.havocCaptured(st, args)
	return vc.havocResults(st, origin.Name(), sig)
}

// checkCallAsserts: `callsite F N requires e` clauses of the function under contract that name this call.
func (vc *VC) checkCallAsserts(st *State, call *ast.CallExpr, origin *types.Func, recv *Value, args []*Value) {
	// (a call inside a function literal of the function under contract is one of its calls too: callIndex decides)
	if vc.contract == nil || len(vc.contract.CallAsserts) == 0 || vc.specMode > 0 {
		return
	}
	ord, ok := vc.callIndex[call]
	if !ok {
		return
	}
	for _, ca := range vc.contract.CallAsserts {
		if ca.Callee != origin.Name() || ca.Ord != ord {
			continue
		}
		key := fmt.Sprintf("%s %d %s", ca.Callee, ca.Ord, ca.Clause.Label)
		if ca.Closure {
			vc.callAssertSeen[key] = true
			fam := fmt.Sprintf("%s%d.%s", ca.Callee, ca.Ord, ca.Clause.Label)
			var fn *FuncVal
			for _, a := range args {
				if a != nil && a.Fn != nil && a.Fn.Lit != nil {
					fn = a.Fn
				}
			}
			if fn == nil {
				vc.oblige(st, "closure", fam, "closure "+ca.Callee+" "+fmt.Sprint(ca.Ord)+": the argument is not a function literal (its effect cannot be established)", call.Pos(), "false")
				continue
			}
			work := st.clone()
			vc.havocAllHeap(work)
			if fn.Env != nil {
				for o, v := range fn.Env.env {
					if _, ok := work.env[o]; !ok {
						work.env[o] = v
					}
				}
			}
			lsig, _ := fn.Pkg.P.TypesInfo.TypeOf(fn.Lit).(*types.Signature)
			if lsig == nil {
				continue
			}
			var largs []*Value
			for i := 0; i < lsig.Params().Len(); i++ {
				largs = append(largs, vc.freshValue(work, fmt.Sprintf("cl_arg%d", i+1), lsig.Params().At(i).Type()))
			}
			savedGuards := vc.guards
			vc.guards = nil
			vc.inlineCall(work, fn.Lit, fn.Pkg, fn.Lit.Type, fn.Lit.Body, nil, lsig, nil, largs, nil)
			t := vc.evalSpecBoolIn(vc.fnScope(work), ca.Clause.Expr)
			vc.oblige(work, "closure", fam, "closure "+ca.Callee+" "+fmt.Sprint(ca.Ord)+" ensures "+ca.Clause.Text, call.Pos(), t)
			vc.guards = savedGuards
			continue
		}
		sc := vc.fnScope(st)
		osig := origin.Type().(*types.Signature)
		for i := 0; i < osig.Params().Len() && i < len(args); i++ {
			if n := osig.Params().At(i).Name(); n != "" && n != "_" {
				sc.names["_"+n] = args[i]
			}
		}
		if recv != nil {
			sc.names["_recv"] = recv // the receiver of a method call
		}
		t := vc.evalSpecBoolIn(sc, ca.Clause.Expr)
		vc.oblige(st, "callsite", fmt.Sprintf("%s%d.%s", ca.Callee, ca.Ord, ca.Clause.Label), "callsite "+ca.Callee+" "+fmt.Sprint(ca.Ord)+" requires "+ca.Clause.Text, call.Pos(), t)
		vc.callAssertSeen[fmt.Sprintf("%s %d %s", ca.Callee, ca.Ord, ca.Clause.Label)] = true
	}
}

// havocCaptured: a callee that received a closure may have run it: the closure-captured locals the closure assigns
// (boxed in `local:` cells) have arbitrary values afterwards.
func (vc *VC) havocCaptured(st *State, args []*Value) {
	for _, a := range args {
		if a == nil || a.Fn == nil || a.Fn.Lit == nil {
			continue
		}
		info := vc.curInfo
		if a.Fn.Pkg != nil {
			info = a.Fn.Pkg.P.TypesInfo
		}
		ast.Inspect(a.Fn.Lit.Body, func(n ast.Node) bool {
			var lhs []ast.Expr
			switch x := n.(type) {
			case *ast.AssignStmt:
				lhs = x.Lhs
			case *ast.IncDecStmt:
				lhs = []ast.Expr{x.X}
			}
			for _, l := range lhs {
				for {
					if se, ok := l.(*ast.SelectorExpr); ok && !isPointer(info.TypeOf(se.X)) {
						l = se.X
						continue
					}
					break
				}
				if id, ok := l.(*ast.Ident); ok {
					if v, ok := info.ObjectOf(id).(*types.Var); ok && vc.boxed[v] && !vc.boxedAddr[v] {
						if ref := st.env[v]; ref != nil {
							vc.store(st, vc.boxLoc(v, ref.Term), vc.freshValue(st, v.Name(), v.Type()))
						}
					}
				}
			}
			return true
		})
	}
}

func (vc *VC) havocAlloc(st *State) {
	na := vc.fresh("Alloc", "(Array Int Bool)")
	vc.addAllocMono(st, st.alloc, na)
	st.alloc = na
}

func (vc *VC) canInline(fd *ast.FuncDecl, f *types.Func) bool {
	if vc.inlineDepth >= 6 {
		return false
	}
	for _, a := range vc.inlineStack {
		if a == f {
			return false // recursion
		}
	}
	if f == vc.fobj {
		return false
	}
	hasLoop := false
	n := 0
	ast.Inspect(fd.Body, func(nd ast.Node) bool {
		switch nd.(type) {
		case *ast.ForStmt, *ast.RangeStmt, *ast.SelectStmt, *ast.GoStmt:
			hasLoop = true
		case ast.Stmt:
			n++
		case *ast.FuncLit:
			return true
		}
		return true
	})
	return !hasLoop && n <= 60
}

func (vc *VC) callValue(st *State, call *ast.CallExpr, fv *Value, sig *types.Signature, args []*Value) []*Value {
	if fv != nil && fv.Fn != nil {
		fn := fv.Fn
		if fn.Lit != nil {
			return vc.inlineLit(st, call, fn, sig, args)
		}
		if fn.Decl != nil {
			dsig := fn.Decl.Type().(*types.Signature)
			var rT types.Type
			if fn.Recv != nil {
				rT = fn.Recv.T
			}
			return vc.callFunc(st, call, fn.Decl, dsig, fn.Recv, rT, args)
		}
	}
	if vc.contract != nil && vc.contract.PureCalls && vc.inlineDepth == 0 {
		vc.assumptions["function-typed parameters of "+vc.fname+" are called without heap effects (purecalls)"] = true
		return vc.havocResults(st, "fnval", sig)
	}
	// unknown function value: if it returns a single bool/int and takes scalars, model it as a pure
	// (deterministic) uninterpreted function of its arguments; otherwise havoc.
	if fv != nil && sig.Results().Len() == 1 && vc.scalarArgs(args) && shapeOf(sig.Results().At(0).Type()) != shStruct && shapeOf(sig.Results().At(0).Type()) != shSlice {
		return []*Value{vc.fnApp(st, fv.Term, sig.Results().At(0).Type(), args)}
	}
	vc.uncontracted["call of unknown function value at "+vc.w.pos(call.Pos())] = true
	vc.havocAllHeap(st)
	return vc.havocResults(st, "fnval", sig)
}

func (vc *VC) scalarArgs(args []*Value) bool {
	for _, a := range args {
		if a.K != VInt && a.K != VBool {
			return false
		}
	}
	return true
}

// fnApp: application of an unknown pure function value.
func (vc *VC) fnApp(st *State, f string, rT types.Type, args []*Value) *Value {
	sorts := []string{"Int"}
	ts := []string{f}
	for _, a := range args {
		if a.K == VBool {
			sorts = append(sorts, "Bool")
		} else {
			sorts = append(sorts, "Int")
		}
		ts = append(ts, a.Term)
	}
	rs := "Int"
	if shapeOf(rT) == shBool {
		rs = "Bool"
	}
	name := "fnapp_" + mangle(strings.Join(sorts[1:], "_")) + "_" + rs
	vc.declareFun(name, "("+strings.Join(sorts, " ")+") "+rs)
	vc.assumptions["function values called in "+vc.fname+" are pure and deterministic (modelled as uninterpreted functions)"] = true
	if rs == "Bool" {
		return &Value{K: VBool, T: rT, Term: app(name, ts...)}
	}
	v := intV(app(name, ts...), rT)
	if st != nil {
		vc.assumeTyped(st, v)
	}
	return v
}

// ---------------------------------------------------------------- inlining

func (vc *VC) inlineLit(st *State, call *ast.CallExpr, fn *FuncVal, sig *types.Signature, args []*Value) []*Value {
	if vc.inlineDepth >= 6 {
		vc.uncontracted["closure call beyond inline depth at "+vc.w.pos(call.Pos())] = true
		vc.havocAllHeap(st)
		return vc.havocResults(st, "closure", sig)
	}
	pi := fn.Pkg
	if pi == nil {
		pi = vc.curPkg
	}
	hasLoop := false
	ast.Inspect(fn.Lit.Body, func(nd ast.Node) bool {
		switch nd.(type) {
		case *ast.ForStmt, *ast.RangeStmt, *ast.SelectStmt:
			hasLoop = true
		}
		return true
	})
	if hasLoop {
		// loops of closures written inside the function under verification are numbered with its loops
		own := false
		ast.Inspect(fn.Lit.Body, func(nd ast.Node) bool {
			if _, ok := vc.loopIndex[nd]; ok {
				own = true
			}
			return true
		})
		if !own {
			vc.uncontracted["closure with loop at "+vc.w.pos(fn.Lit.Pos())] = true
			vc.havocAllHeap(st)
			return vc.havocResults(st, "closure", sig)
		}
	}
	return vc.inlineCall(st, call, pi, fn.Lit.Type, fn.Lit.Body, nil, sig, nil, args, nil)
}

func (vc *VC) inlineCall(st *State, call ast.Node, pi *PkgInfo, ftype *ast.FuncType, body *ast.BlockStmt, fobj *types.Func,
	sig *types.Signature, recv *Value, args []*Value, recvList *ast.FieldList) []*Value {

	savedInfo, savedPkg := vc.curInfo, vc.curPkg
	vc.curInfo, vc.curPkg = pi.P.TypesInfo, pi
	vc.inlineDepth++
	vc.inlineStack = append(vc.inlineStack, fobj)
	savedGuards := vc.guards
	defer func() {
		vc.curInfo, vc.curPkg = savedInfo, savedPkg
		vc.inlineDepth--
		vc.inlineStack = vc.inlineStack[:len(vc.inlineStack)-1]
		vc.guards = savedGuards
	}()
	vc.scanBoxed(body, pi.P.TypesInfo)
	// a call under a short-circuit guard: make the guard part of the path condition of the inlined body
	base := st
	nGuard := len(vc.guards)
	_, _ = base, nGuard
	// bind receiver and parameters
	if recvList != nil && len(recvList.List) > 0 && len(recvList.List[0].Names) > 0 && recv != nil {
		id := recvList.List[0].Names[0]
		if obj := pi.P.TypesInfo.Defs[id]; obj != nil {
			vc.bindParam(st, obj, recv)
		}
	}
	ai := 0
	for _, f := range ftype.Params.List {
		if len(f.Names) == 0 {
			ai++
			continue
		}
		for _, id := range f.Names {
			if obj := pi.P.TypesInfo.Defs[id]; obj != nil && ai < len(args) {
				vc.bindParam(st, obj, args[ai])
			}
			ai++
		}
	}
	fr := &inlineFrame{}
	if ftype.Results != nil {
		for _, f := range ftype.Results.List {
			T := pi.P.TypesInfo.TypeOf(f.Type)
			if len(f.Names) == 0 {
				fr.results = append(fr.results, nil)
				fr.types = append(fr.types, T)
				continue
			}
			for _, id := range f.Names {
				obj := pi.P.TypesInfo.Defs[id]
				fr.results = append(fr.results, obj)
				fr.types = append(fr.types, T)
				if obj != nil {
					vc.bindParam(st, obj, vc.zeroValue(T))
				}
			}
		}
	}
	// generic instantiation: result types of the instantiated signature
	if sig != nil && sig.Results().Len() == len(fr.types) {
		for i := range fr.types {
			if hasTypeParam(fr.types[i]) {
				fr.types[i] = sig.Results().At(i).Type()
			}
		}
	}
	vc.retStack = append(vc.retStack, fr)
	nDefers := len(st.defers)
	n := len(st.pc)
	work := st.clone()
	guardTerm := smtAnd(vc.guards...)
	vc.guards = nil
	if guardTerm != "true" {
		work.assumeGuard(guardTerm)
	}
	n2 := len(work.pc)
	outs := vc.execBlock(work, body.List)
	vc.retStack = vc.retStack[:len(vc.retStack)-1]
	var finals []*State
	resObjs := make([]types.Object, len(fr.types))
	for i, T := range fr.types {
		resObjs[i] = types.NewVar(0, nil, fmt.Sprintf("$ret%d", i), T)
	}
	for _, o := range outs {
		var rets []*Value
		switch o.kind {
		case oReturn:
			rets = o.rets
		case oNormal:
			for _, ro := range fr.results {
				if ro != nil {
					rets = append(rets, vc.evalIdentObj(o.st, ro))
				}
			}
			if len(rets) != len(fr.types) {
				if len(fr.types) != 0 {
					vc.unsupported(call, "missing return")
				}
			}
		default:
			vc.unsupported(call, "break/continue escaping inlined call")
		}
		// deferred calls registered inside the callee
		if len(o.st.defers) > nDefers {
			rets = vc.runDefers(o.st, nDefers, fr, rets)
		}
		for i, r := range rets {
			o.st.env[resObjs[i]] = r
		}
		finals = append(finals, o.st)
	}
	if len(finals) == 0 {
		// the callee never returns (panics on every path): the continuation is unreachable
		if guardTerm != "true" {
			st.assume(smtNot(guardTerm))
		} else {
			st.assume("false")
		}
		var rs []*Value
		for _, T := range fr.types {
			rs = append(rs, vc.zeroValue(T))
		}
		return rs
	}
	var merged *State
	if guardTerm != "true" {
		// the skipped alternative: state unchanged, results unconstrained (never used under !guard)
		skip := st.clone()
		skip.assumeGuard(smtNot(guardTerm))
		for i, T := range fr.types {
			skip.env[resObjs[i]] = vc.zeroValue(T)
		}
		finals = append(finals, skip)
		merged = vc.mergeStates(n, finals)
	} else if len(finals) == 1 {
		merged = finals[0]
	} else {
		merged = vc.mergeStates(n2, finals)
	}
	var rs []*Value
	for i := range fr.types {
		rs = append(rs, merged.env[resObjs[i]])
		delete(merged.env, resObjs[i])
	}
	merged.defers = merged.defers[:nDefers]
	*st = *merged
	return rs
}

func hasTypeParam(T types.Type) bool {
	found := false
	var visit func(t types.Type, depth int)
	visit = func(t types.Type, depth int) {
		if depth > 6 || t == nil {
			return
		}
		switch x := t.(type) {
		case *types.TypeParam:
			found = true
		case *types.Pointer:
			visit(x.Elem(), depth+1)
		case *types.Slice:
			visit(x.Elem(), depth+1)
		case *types.Map:
			visit(x.Key(), depth+1)
			visit(x.Elem(), depth+1)
		case *types.Named:
			if x.TypeArgs() != nil {
				for i := 0; i < x.TypeArgs().Len(); i++ {
					visit(x.TypeArgs().At(i), depth+1)
				}
			}
		}
	}
	visit(T, 0)
	return found
}

func (vc *VC) bindParam(st *State, obj types.Object, v *Value) {
	if vr, _ := obj.(*types.Var); vr != nil && vc.boxed[vr] {
		ref := vc.allocRef(st, "cell_"+obj.Name())
		st.env[obj] = intV(ref, nil)
		vc.store(st, vc.boxLoc(vr, ref), v)
		return
	}
	st.env[obj] = v
}

func (vc *VC) runDefers(st *State, from int, fr *inlineFrame, rets []*Value) []*Value {
	ds := st.defers[from:]
	st.defers = st.defers[:from]
	for i := len(ds) - 1; i >= 0; i-- {
		d := ds[i]
		savedInfo, savedPkg := vc.curInfo, vc.curPkg
		vc.curInfo, vc.curPkg = d.info, d.pkg
		// the deferred call runs after the results were set; named results are visible through env
		if lit, ok := d.call.Fun.(*ast.FuncLit); ok {
			sig := vc.typeOf(lit).(*types.Signature)
			vc.inlineLit(st, d.call, &FuncVal{Lit: lit, Pkg: d.pkg}, sig, nil)
		} else {
			// re-evaluate through the generic path with pre-evaluated arguments
			vc.evalCallPre(st, d.call)
		}
		vc.curInfo, vc.curPkg = savedInfo, savedPkg
	}
	// named results may have been changed by deferred closures
	var out []*Value
	for i, ro := range fr.results {
		if ro != nil {
			out = append(out, vc.evalIdentObj(st, ro))
		} else if i < len(rets) {
			out = append(out, rets[i])
		}
	}
	return out
}

// evalCallPre runs a deferred call (arguments were evaluated at defer time; we re-evaluate them,
// which is equivalent when they are not reassigned in between — the verified subset).
func (vc *VC) evalCallPre(st *State, call *ast.CallExpr) {
	vc.evalCall(st, call)
}

// scanBoxed marks local variables that need a heap cell: address taken, or assigned inside a closure.
func (vc *VC) scanBoxed(body ast.Node, info *types.Info) {
	if vc.boxScanned[body] {
		return
	}
	vc.boxScanned[body] = true
	var litDepth []*ast.FuncLit
	var visit func(n ast.Node) bool
	declaredIn := func(obj types.Object, lit *ast.FuncLit) bool {
		return obj.Pos() >= lit.Pos() && obj.Pos() <= lit.End()
	}
	visit = func(n ast.Node) bool {
		switch x := n.(type) {
		case *ast.FuncLit:
			litDepth = append(litDepth, x)
			ast.Inspect(x.Body, visit)
			litDepth = litDepth[:len(litDepth)-1]
			return false
		case *ast.UnaryExpr:
			if x.Op.String() == "&" {
				if id, ok := ast.Unparen(x.X).(*ast.Ident); ok {
					if v, ok := info.ObjectOf(id).(*types.Var); ok && !vc.isGlobal(v) {
						vc.boxed[v] = true
						vc.boxedAddr[v] = true
					}
				}
			}
		case *ast.AssignStmt:
			if len(litDepth) > 0 {
				for _, l := range x.Lhs {
					vc.boxIfOuter(l, info, litDepth[0], declaredIn)
				}
			}
		case *ast.IncDecStmt:
			if len(litDepth) > 0 {
				vc.boxIfOuter(x.X, info, litDepth[0], declaredIn)
			}
		case *ast.SelectorExpr:
			// pointer-receiver method called on an addressable local struct value
			if s := info.Selections[x]; s != nil && s.Kind() == types.MethodVal {
				if m, ok := s.Obj().(*types.Func); ok {
					msig := m.Type().(*types.Signature)
					if msig.Recv() != nil {
						if _, ptr := msig.Recv().Type().(*types.Pointer); ptr {
							if id, ok := ast.Unparen(x.X).(*ast.Ident); ok {
								if v, ok := info.ObjectOf(id).(*types.Var); ok && !vc.isGlobal(v) && !isPointer(v.Type()) && !isInterface(v.Type()) {
									vc.boxed[v] = true
									vc.boxedAddr[v] = true
								}
							}
						}
					}
				}
			}
		}
		return true
	}
	ast.Inspect(body, visit)
}

func (vc *VC) boxIfOuter(l ast.Expr, info *types.Info, lit *ast.FuncLit, declaredIn func(types.Object, *ast.FuncLit) bool) {
	for {
		switch y := l.(type) {
		case *ast.SelectorExpr:
			if isPointer(info.TypeOf(y.X)) {
				return
			}
			l = y.X
			continue
		case *ast.ParenExpr:
			l = y.X
			continue
		}
		break
	}
	if id, ok := l.(*ast.Ident); ok {
		if v, ok := info.ObjectOf(id).(*types.Var); ok && !vc.isGlobal(v) && !declaredIn(v, lit) {
			vc.boxed[v] = true
		}
	}
}

// ---------------------------------------------------------------- conversions and builtins

func (vc *VC) evalConversion(st *State, call *ast.CallExpr, to types.Type) *Value {
	arg := call.Args[0]
	from := vc.typeOf(arg)
	v := vc.evalExpr(st, arg)
	// converting a (non-constant) value to a type with a declared invariant creates a value of that type
	if n := namedOf(to); n != nil && v.K == VInt {
		if ti := vc.w.TypeInvs[n.Obj().Pkg().Path()+"."+n.Obj().Name()]; ti != nil {
			if tv, ok := vc.curInfo.Types[arg]; !ok || tv.Value == nil {
				if vc.specMode == 0 && !vc.noSafety["type-inv"] {
					t := vc.typeInvTerm(st, ti, intV(v.Term, to))
					vc.oblige(st, "type-inv", n.Obj().Name(), "value converted to "+n.Obj().Name()+" satisfies its invariant: "+vc.nodeText(call), call.Pos(), t)
					st.assume(t)
				}
			}
		}
	}
	switch {
	case isInterface(to):
		return vc.convertTo(st, v, from, to)
	case isInteger(to) && isInteger(from):
		lo, hi, ok := intRange(to)
		flo, fhi, fok := intRange(from)
		if ok && !(fok && rangeWithin(flo, fhi, lo, hi)) {
			if vc.wrapMode > 0 {
				r := intV(v.Term, to)
				return vc.arithResult(st, call, r, to)
			}
			vc.safety(st, "narrow", call, app("<=", lo, v.Term, hi))
		}
		return intV(v.Term, to)
	case isInteger(to) && !isInteger(from) && !isString(from) && v.K == VInt && isNumeric(from):
		// float -> integer: value not modelled, only the range of the target type
		return vc.freshValue(st, "fromfloat", to)
	case isString(to) && isString(from):
		return intV(v.Term, to)
	case isString(to) && v.K == VSlice:
		return vc.bytesToString(st, v, to)
	case isString(to) && isInteger(from):
		// string(rune/byte): one-character string for values < 128 (UTF-8 encoding otherwise, not modelled)
		s := vc.fresh("runestr", "Int")
		st.assume(smtImp(app("<", v.Term, "128"), smtAnd(smtEq(app("strlen", s), "1"), smtEq(app("strat", s, "0"), v.Term))))
		return intV(s, to)
	case shapeOf(to) == shSlice && isString(from):
		return vc.stringToBytes(st, v, to)
	case shapeOf(to) == shSlice && v.K == VSlice:
		n := *v
		n.T = to
		return &n
	case shapeOf(to) == shStruct && v.K == VStruct:
		n := *v
		n.T = to
		return &n
	case shapeOf(to) == shBool:
		return &Value{K: VBool, T: to, Term: v.Term}
	case v.K == VInt:
		return intV(v.Term, to)
	}
	vc.unsupported(call, "conversion %s -> %s", from, to)
	return nil
}

func isNumeric(T types.Type) bool {
	b, ok := under(T).(*types.Basic)
	return ok && b.Info()&types.IsNumeric != 0
}

func rangeWithin(flo, fhi, lo, hi string) bool {
	return bigLE(lo, flo) && bigLE(fhi, hi)
}

func parseBig(s string) (neg bool, digits string) {
	if strings.HasPrefix(s, "(- ") {
		return true, strings.TrimSuffix(strings.TrimPrefix(s, "(- "), ")")
	}
	return false, s
}

func bigLE(a, b string) bool {
	an, ad := parseBig(a)
	bn, bd := parseBig(b)
	cmp := func(x, y string) int {
		if len(x) != len(y) {
			if len(x) < len(y) {
				return -1
			}
			return 1
		}
		return strings.Compare(x, y)
	}
	switch {
	case an && !bn:
		return true
	case !an && bn:
		return false
	case !an:
		return cmp(ad, bd) <= 0
	default:
		return cmp(ad, bd) >= 0
	}
}

func (vc *VC) bytesToString(st *State, v *Value, to types.Type) *Value {
	elemT := types.Typ[types.Uint8]
	h := vc.heapGet(st, elemCompPrefix(elemT), sortAt("Int", 2))
	vc.declareFun("bytes2str", "((Array Int Int) Int Int Int) Int")
	vc.addAxiomKeyed([]string{"bytes2str"}, "(forall ((h (Array Int Int)) (a Int) (o Int) (n Int)) (! (=> (>= n 0) (= (strlen (bytes2str h a o n)) n)) :pattern ((bytes2str h a o n))))")
	vc.addAxiomKeyed([]string{"bytes2str"}, "(forall ((h (Array Int Int)) (a Int) (o Int) (n Int) (i Int)) (! (=> (and (<= 0 i) (< i n)) (= (strat (bytes2str h a o n) i) (select h (pr a (+ o i))))) :pattern ((strat (bytes2str h a o n) i))))")
	vc.addAxiomKeyed([]string{"bytes2str"}, "(forall ((h (Array Int Int)) (a Int) (o Int)) (! (= (bytes2str h a o 0) 0) :pattern ((bytes2str h a o 0))))")
	return intV(app("bytes2str", h, v.Arr, v.Off, v.Len), to)
}

func (vc *VC) stringToBytes(st *State, v *Value, to types.Type) *Value {
	elemT := under(to).(*types.Slice).Elem()
	comp := elemCompPrefix(elemT)
	arr := vc.allocArr(st, "str2bytes")
	str := v.Term
	vc.rowUpdate(st, comp, sortAt("Int", 2), arr, func(i, nc, oc string) string {
		return smtImp(smtAnd(app("<=", "0", i), app("<", i, app("strlen", str))), smtEq(nc, app("strat", str, i)))
	})
	n := app("strlen", v.Term)
	return &Value{K: VSlice, T: to, Arr: arr, Off: "0", Len: n, Cap: n}
}

func (vc *VC) evalBuiltin(st *State, call *ast.CallExpr, name string) []*Value {
	one := func(v *Value) []*Value { return []*Value{v} }
	switch name {
	case "len", "cap":
		a := vc.evalExpr(st, call.Args[0])
		T := vc.typeOf(call.Args[0])
		switch {
		case a.K == VSlice:
			if name == "cap" {
				return one(intV(a.Cap, types.Typ[types.Int]))
			}
			return one(intV(a.Len, types.Typ[types.Int]))
		case isString(T):
			return one(intV(app("strlen", a.Term), types.Typ[types.Int]))
		}
		if mt, ok := under(T).(*types.Map); ok {
			_ = mt
			return one(intV(vc.mapLen(st, T, a.Term), types.Typ[types.Int]))
		}
		r := vc.freshValue(st, name, types.Typ[types.Int])
		st.assume(app("<=", "0", r.Term))
		return one(r)
	case "append":
		return one(vc.evalAppend(st, call))
	case "make":
		T := vc.typeOf(call.Args[0])
		switch u := under(T).(type) {
		case *types.Slice:
			n := vc.evalExpr(st, call.Args[1])
			vc.safety(st, "panic", call, app("<=", "0", n.Term))
			capT := n.Term
			if len(call.Args) > 2 {
				c := vc.evalExpr(st, call.Args[2])
				vc.safety(st, "panic", call, app("<=", n.Term, c.Term))
				capT = c.Term
			}
			arr := vc.allocArr(st, "make")
			s := &Value{K: VSlice, T: T, Arr: arr, Off: "0", Len: n.Term, Cap: capT}
			vc.leafComps(elemCompPrefix(u.Elem()), u.Elem(), 2, func(comp, sort string) {
				isBool := strings.HasSuffix(sort, "Bool))")
				vc.rowUpdate(st, comp, sort, arr, func(i, nc, oc string) string {
					if isBool {
						return smtNot(nc)
					}
					return smtEq(nc, "0")
				})
			})
			return one(s)
		case *types.Map:
			for _, a := range call.Args[1:] {
				vc.evalExpr(st, a)
			}
			m := vc.allocRef(st, "map")
			mp := mapCompPrefix(T)
			vc.rowUpdate(st, mp+".dom", "(Array Int (Array Int Bool))", m, func(i, nc, oc string) string { return smtNot(nc) })
			vc.mapLenZero(st, T, m)
			return one(intV(m, T))
		case *types.Chan:
			for _, a := range call.Args[1:] {
				vc.evalExpr(st, a)
			}
			return one(intV(vc.allocRef(st, "chan"), T))
		}
		vc.unsupported(call, "make(%s)", T)
	case "new":
		T := vc.typeOf(call.Args[0])
		ref := vc.allocRef(st, "new")
		vc.store(st, vc.derefLoc(ref, T), vc.zeroValue(T))
		return one(intV(ref, types.NewPointer(T)))
	case "delete":
		m := vc.evalExpr(st, call.Args[0])
		k := vc.evalExpr(st, call.Args[1])
		vc.mapDelete(st, vc.typeOf(call.Args[0]), m.Term, vc.mapKeyTerm(call, k))
		return nil
	case "copy":
		return one(vc.evalCopy(st, call))
	case "min", "max":
		v := vc.evalExpr(st, call.Args[0])
		for _, a := range call.Args[1:] {
			w := vc.evalExpr(st, a)
			op := "<="
			if name == "max" {
				op = ">="
			}
			v = intV(smtIte(app(op, v.Term, w.Term), v.Term, w.Term), vc.typeOf(call))
		}
		return one(v)
	case "panic":
		for _, a := range call.Args {
			vc.evalExpr(st, a)
		}
		vc.safety(st, "panic", call, "false")
		return nil
	case "recover":
		return one(intV("0", vc.typeOf(call)))
	case "print", "println":
		return nil
	}
	vc.unsupported(call, "builtin %s", name)
	return nil
}

// evalAppend: the result lives in a fresh backing array with the specified contents; the old backing array
// is havocked beyond the old length (append may or may not have written in place).
func (vc *VC) evalAppend(st *State, call *ast.CallExpr) *Value {
	T := vc.typeOf(call)
	u := under(T).(*types.Slice)
	s := vc.evalExpr(st, call.Args[0])
	if s.K != VSlice {
		vc.unsupported(call, "append to non-slice")
	}
	arr := vc.allocArr(st, "append")
	res := &Value{K: VSlice, T: T, Arr: arr, Off: "0"}
	var tail *Value
	var elems []*Value
	if call.Ellipsis.IsValid() {
		tail = vc.evalExpr(st, call.Args[1])
		if isString(vc.typeOf(call.Args[1])) {
			tail = vc.stringToBytes(st, tail, T)
		}
		res.Len = app("+", s.Len, tail.Len)
	} else {
		for _, a := range call.Args[1:] {
			elems = append(elems, vc.evalExprTo(st, a, u.Elem()))
		}
		if len(elems) == 0 {
			return s
		}
		res.Len = app("+", s.Len, fmt.Sprint(len(elems)))
	}
	res.Cap = vc.fresh("cap", "Int")
	st.assume(app("<=", res.Len, res.Cap))
	// bind the new length to a short name
	ln := vc.fresh("len", "Int")
	st.assume(smtEq(ln, res.Len))
	res.Len = ln
	// elementwise contents per leaf component
	vc.leafComps(elemCompPrefix(u.Elem()), u.Elem(), 2, func(comp, sort string) {
		h0 := vc.heapGet(st, comp, sort)
		// old backing array: positions at or beyond off+len may have been overwritten in place
		if s.Arr != "0" {
			lim := app("+", s.Off, s.Len)
			vc.rowUpdate(st, comp, sort, s.Arr, func(i, nc, oc string) string {
				return smtImp(smtOr(smtEq(s.Arr, "0"), app("<", i, lim)), smtEq(nc, oc))
			})
		}
		// new backing array: prefix copied from s, then the tail
		srcS := func(i string) string { return sel2(h0, s.Arr, app("+", s.Off, i)) }
		vc.rowUpdatePat(st, comp, sort, arr, func(i, nc, oc string) string {
			f := smtImp(smtAnd(app("<=", "0", i), app("<", i, s.Len)), smtEq(nc, srcS(i)))
			if tail != nil {
				tsrc := sel2(h0, tail.Arr, app("+", tail.Off, app("-", i, s.Len)))
				f = smtAnd(f, smtImp(smtAnd(app("<=", s.Len, i), app("<", i, res.Len)), smtEq(nc, tsrc)))
			}
			return f
		}, func(i string) string {
			// what is known about an element of the old slice carries over to its copy
			if s.Arr == "0" {
				return ""
			}
			return srcS(i)
		})
	})
	// explicit elements
	for j, e := range elems {
		idx := app("+", s.Len, fmt.Sprint(j))
		if j == 0 {
			idx = s.Len
		}
		vc.storeElem(st, res, idx, u.Elem(), e)
	}
	return res
}

func (vc *VC) evalCopy(st *State, call *ast.CallExpr) *Value {
	dst := vc.evalExpr(st, call.Args[0])
	src := vc.evalExpr(st, call.Args[1])
	dT := under(vc.typeOf(call.Args[0])).(*types.Slice)
	if isString(vc.typeOf(call.Args[1])) {
		src = vc.stringToBytes(st, src, vc.typeOf(call.Args[0]))
	}
	n := vc.fresh("ncopy", "Int")
	st.assume(smtEq(n, smtIte(app("<=", dst.Len, src.Len), dst.Len, src.Len)))
	vc.leafComps(elemCompPrefix(dT.Elem()), dT.Elem(), 2, func(comp, sort string) {
		h0 := vc.heapGet(st, comp, sort)
		vc.rowUpdate(st, comp, sort, dst.Arr, func(i, nc, oc string) string {
			inRange := smtAnd(app("<=", dst.Off, i), app("<", i, app("+", dst.Off, n)))
			return smtEq(nc, smtIte(inRange, sel2(h0, src.Arr, app("+", src.Off, app("-", i, dst.Off))), oc))
		})
	})
	return intV(n, types.Typ[types.Int])
}

package main

import (
	"fmt"
	"go/ast"
	"go/constant"
	"go/token"
	"go/types"
	"os"
	"strconv"
	"strings"
)

func (w *World) fileData(name string) []byte {
	if d, ok := w.Overlay[name]; ok {
		return d
	}
	if w.fileCache == nil {
		w.fileCache = map[string][]byte{}
	}
	if d, ok := w.fileCache[name]; ok {
		return d
	}
	d, _ := os.ReadFile(name)
	w.fileCache[name] = d
	return d
}

// ---------------------------------------------------------------- locations

type Loc struct {
	isVar bool
	obj   types.Object
	path  []string // struct field path inside a variable
	comp  string
	lvl   int
	acc   func(h string) string
	upd   func(h, v string) string
	outer string // outer index written (object ref / array id / map ref)
	T     types.Type
	blank bool
}

func cellPrefix(T types.Type) string {
	if _, ok := under(T).(*types.Struct); ok {
		return structCompPrefix(T)
	}
	return "cell:" + typeKey(T)
}

func (vc *VC) derefLoc(ref string, elemT types.Type) Loc {
	return Loc{comp: cellPrefix(elemT), lvl: 1, T: elemT, outer: ref,
		acc: func(h string) string { return sel(h, ref) },
		upd: func(h, v string) string { return sto(h, ref, v) }}
}

// boxLoc: the heap cell of a boxed local variable. Locals that are boxed only because a closure assigns them
// (their address is never taken explicitly) live in `local:` components, which no callee can reach: they survive
// heap havoc and are havocked only after calls that receive a closure assigning them.
func (vc *VC) boxLoc(v *types.Var, ref string) Loc {
	l := vc.derefLoc(ref, v.Type())
	if !vc.boxedAddr[v] {
		if _, isStruct := under(v.Type()).(*types.Struct); !isStruct {
			l.comp = "local:" + typeKey(v.Type())
		}
	}
	return l
}

func (vc *VC) load(st *State, l Loc) *Value {
	if l.blank {
		return vc.zeroValue(l.T)
	}
	if l.isVar {
		v := st.env[l.obj]
		if v == nil {
			// a variable we have not seen (e.g. captured from an enclosing function we do not model)
			v = vc.freshValue(st, l.obj.Name(), l.obj.Type())
			st.env[l.obj] = v
		}
		for _, p := range l.path {
			if v.K != VStruct || v.Fields[p] == nil {
				panic(fmt.Sprintf("load: no field %s in %v", p, v))
			}
			v = v.Fields[p]
		}
		return v
	}
	return vc.loadShape(st, l.comp, l.T, l.lvl, l.acc)
}

func (vc *VC) store(st *State, l Loc, val *Value) {
	if l.blank {
		return
	}
	if l.isVar {
		if len(l.path) == 0 {
			st.env[l.obj] = val
			return
		}
		st.env[l.obj] = setPath(st.env[l.obj], l.path, val)
		return
	}
	vc.storeShape(st, l.comp, l.T, l.lvl, l.outer, l.upd, val)
}

func setPath(v *Value, path []string, val *Value) *Value {
	if len(path) == 0 {
		return val
	}
	n := &Value{K: VStruct, T: v.T, Fields: map[string]*Value{}, FOrder: v.FOrder}
	for k, f := range v.Fields {
		n.Fields[k] = f
	}
	n.Fields[path[0]] = setPath(v.Fields[path[0]], path[1:], val)
	return n
}

func (l Loc) field(name string, T types.Type) Loc {
	n := l
	n.T = T
	if l.isVar {
		n.path = append(append([]string(nil), l.path...), name)
	} else {
		n.comp = l.comp + "." + name
	}
	return n
}

func (vc *VC) typeOf(e ast.Expr) types.Type {
	if tv, ok := vc.curInfo.Types[e]; ok {
		return tv.Type
	}
	if id, ok := e.(*ast.Ident); ok {
		if o := vc.curInfo.ObjectOf(id); o != nil {
			return o.Type()
		}
	}
	return nil
}

func (vc *VC) evalLoc(st *State, e ast.Expr) Loc {
	switch x := e.(type) {
	case *ast.ParenExpr:
		return vc.evalLoc(st, x.X)
	case *ast.Ident:
		if x.Name == "_" {
			return Loc{blank: true, T: types.Typ[types.Int]}
		}
		obj := vc.curInfo.ObjectOf(x)
		v, ok := obj.(*types.Var)
		if !ok {
			vc.unsupported(e, "assignment to non-variable %s", x.Name)
		}
		if vc.isGlobal(v) {
			return Loc{comp: "global:" + v.Pkg().Path() + "." + v.Name(), lvl: 0, T: v.Type(), acc: func(h string) string { return h }, upd: func(h, nv string) string { return nv }}
		}
		if vc.boxed[v] {
			ref := st.env[v]
			return vc.boxLoc(v, ref.Term)
		}
		return Loc{isVar: true, obj: v, T: v.Type()}
	case *ast.SelectorExpr:
		s := vc.curInfo.Selections[x]
		if s == nil {
			// package-qualified variable
			if v, ok := vc.curInfo.Uses[x.Sel].(*types.Var); ok && vc.isGlobal(v) {
				return Loc{comp: "global:" + v.Pkg().Path() + "." + v.Name(), lvl: 0, T: v.Type(), acc: func(h string) string { return h }, upd: func(h, nv string) string { return nv }}
			}
			vc.unsupported(e, "selector location")
		}
		if s.Kind() != types.FieldVal {
			vc.unsupported(e, "method value as location")
		}
		baseT := vc.typeOf(x.X)
		var cur Loc
		haveLoc := false
		var curVal *Value
		if isPointer(baseT) {
			curVal = vc.evalExpr(st, x.X)
		} else {
			cur = vc.evalLoc(st, x.X)
			haveLoc = true
		}
		T := baseT
		for _, idx := range s.Index() {
			if p, ok := under(T).(*types.Pointer); ok {
				var ref string
				if haveLoc {
					ref = vc.load(st, cur).Term
				} else {
					ref = curVal.Term
				}
				vc.safety(st, "nil", x, smtNot(smtEq(ref, "0")))
				cur = vc.derefLoc(ref, p.Elem())
				haveLoc = true
				T = p.Elem()
			}
			sT := under(T).(*types.Struct)
			f := sT.Field(idx)
			cur = cur.field(f.Name(), f.Type())
			T = f.Type()
		}
		return cur
	case *ast.StarExpr:
		p := vc.evalExpr(st, x.X)
		vc.safety(st, "nil", x, smtNot(smtEq(p.Term, "0")))
		pt := under(vc.typeOf(x.X)).(*types.Pointer)
		return vc.derefLoc(p.Term, pt.Elem())
	case *ast.IndexExpr:
		bt := vc.typeOf(x.X)
		switch u := under(bt).(type) {
		case *types.Slice:
			s := vc.evalExpr(st, x.X)
			i := vc.evalExpr(st, x.Index)
			vc.safety(st, "bounds", x, smtAnd(app("<=", "0", i.Term), app("<", i.Term, s.Len)))
			pos := i.Term
			if s.Off != "0" {
				pos = app("+", s.Off, i.Term)
			}
			arr := s.Arr
			return Loc{comp: elemCompPrefix(u.Elem()), lvl: 2, T: u.Elem(), outer: arr,
				acc: func(h string) string { return sel2(h, arr, pos) },
				upd: func(h, v string) string { return sto2(h, arr, pos, v) }}
		case *types.Map:
			m := vc.evalExpr(st, x.X)
			k := vc.evalExpr(st, x.Index)
			vc.safety(st, "nilmap", x, smtNot(smtEq(m.Term, "0")))
			kt := vc.mapKeyTerm(x, k)
			mref := m.Term
			mp := mapCompPrefix(bt)
			// writing a map element also sets the domain bit; done by the caller through mapStore
			return Loc{comp: mp + ".val", lvl: 2, T: u.Elem(), outer: mref,
				acc: func(h string) string { return sel2(h, mref, kt) },
				upd: func(h, v string) string { return sto2(h, mref, kt, v) }}
		case *types.Pointer: // pointer to array
			vc.unsupported(e, "index of pointer to array")
		}
		vc.unsupported(e, "index location on %s", bt)
	}
	vc.unsupported(e, "location %T", e)
	return Loc{}
}

func mapCompPrefix(T types.Type) string { return "map:" + typeKey(T) }

func (vc *VC) mapKeyTerm(n ast.Node, k *Value) string {
	if t, ok := scalarOf(k); ok {
		return t
	}
	vc.unsupported(n, "map key of composite type")
	return ""
}

// scalarOf: the single scalar leaf of a value (structs wrapping one scalar count as scalars).
func scalarOf(k *Value) (string, bool) {
	switch k.K {
	case VInt:
		return k.Term, true
	case VBool:
		return smtIte(k.Term, "1", "0"), true
	case VStruct:
		if len(k.FOrder) == 1 {
			return scalarOf(k.Fields[k.FOrder[0]])
		}
	}
	return "", false
}

// wrapScalar builds a value of type T whose single scalar leaf is term (inverse of scalarOf).
func wrapScalar(T types.Type, term string) *Value {
	if T != nil {
		if s, ok := under(T).(*types.Struct); ok && s.NumFields() == 1 {
			f := s.Field(0)
			return &Value{K: VStruct, T: T, Fields: map[string]*Value{f.Name(): wrapScalar(f.Type(), term)}, FOrder: []string{f.Name()}}
		}
		if shapeOf(T) == shBool {
			return &Value{K: VBool, T: T, Term: term}
		}
	}
	return intV(term, T)
}

func (vc *VC) isGlobal(v *types.Var) bool {
	return v.Pkg() != nil && v.Parent() == v.Pkg().Scope()
}

// ---------------------------------------------------------------- expressions

func (vc *VC) constValue(tv types.TypeAndValue) *Value {
	T := tv.Type
	switch tv.Value.Kind() {
	case constant.Bool:
		return &Value{K: VBool, Term: strconv.FormatBool(constant.BoolVal(tv.Value)), T: T}
	case constant.Int:
		s := tv.Value.ExactString()
		if s[0] == '-' {
			s = "(- " + s[1:] + ")"
		}
		return intV(s, T)
	case constant.String:
		return intV(vc.strLit(constant.StringVal(tv.Value)), T)
	case constant.Float:
		if isInteger(T) {
			if i, ok := constant.Int64Val(constant.ToInt(tv.Value)); ok {
				return intV(smtInt(i), T)
			}
		}
	}
	return nil
}

func (vc *VC) evalExpr(st *State, e ast.Expr) *Value {
	if tv, ok := vc.curInfo.Types[e]; ok && tv.Value != nil {
		if v := vc.constValue(tv); v != nil {
			return v
		}
	}
	switch x := e.(type) {
	case *ast.ParenExpr:
		return vc.evalExpr(st, x.X)
	case *ast.BasicLit:
		vc.unsupported(e, "literal %s", x.Value)
	case *ast.Ident:
		return vc.evalIdent(st, x)
	case *ast.UnaryExpr:
		return vc.evalUnary(st, x)
	case *ast.BinaryExpr:
		return vc.evalBinary(st, x)
	case *ast.CallExpr:
		rs := vc.evalCall(st, x)
		if len(rs) == 1 {
			return rs[0]
		}
		return &Value{K: VTuple, Elts: rs}
	case *ast.SelectorExpr:
		return vc.evalSelector(st, x)
	case *ast.StarExpr:
		return vc.load(st, vc.evalLoc(st, x))
	case *ast.IndexExpr:
		return vc.evalIndex(st, x)
	case *ast.SliceExpr:
		return vc.evalSliceExpr(st, x)
	case *ast.CompositeLit:
		return vc.evalCompositeLit(st, x)
	case *ast.FuncLit:
		return &Value{K: VInt, Term: vc.fresh("closure", "Int"), T: vc.typeOf(x), Fn: &FuncVal{Lit: x, Env: st, Pkg: vc.curPkg}}
	case *ast.TypeAssertExpr:
		v, ok := vc.evalTypeAssert(st, x)
		vc.safety(st, "assert-type", x, ok)
		return v
	case *ast.IndexListExpr:
		vc.unsupported(e, "generic instantiation expression")
	}
	vc.unsupported(e, "expression %T", e)
	return nil
}

func (vc *VC) evalIdent(st *State, x *ast.Ident) *Value {
	obj := vc.curInfo.ObjectOf(x)
	switch o := obj.(type) {
	case *types.Nil:
		T := vc.typeOf(x)
		if T == nil || T == types.Typ[types.UntypedNil] {
			return intV("0", nil)
		}
		return vc.zeroValue(T)
	case *types.Var:
		if vc.isGlobal(o) {
			return vc.globalVar(st, o)
		}
		if vc.boxed[o] {
			return vc.load(st, vc.boxLoc(o, st.env[o].Term))
		}
		v := st.env[o]
		if v == nil {
			v = vc.freshValue(st, o.Name(), o.Type())
			st.env[o] = v
		}
		return v
	case *types.Func:
		return &Value{K: VInt, Term: "fn_" + mangle(o.FullName()), T: o.Type(), Fn: &FuncVal{Decl: o}}
	case *types.Const:
		if v := vc.constValue(types.TypeAndValue{Type: o.Type(), Value: o.Val()}); v != nil {
			return v
		}
	}
	if x.Name == "true" || x.Name == "false" {
		return boolV(x.Name)
	}
	vc.unsupported(x, "identifier %s", x.Name)
	return nil
}

// globalVar: package-level variables. Error sentinels (package-level error variables) are immutable,
// non-nil and pairwise distinct constants (assumption listed in the evidence); everything else is
// a level-0 heap component.
func (vc *VC) globalVar(st *State, o *types.Var) *Value {
	if isInterface(o.Type()) && types.Identical(o.Type(), types.Universe.Lookup("error").Type()) {
		n := "G_" + mangle(o.Pkg().Path()+"."+o.Name())
		vc.declare(n, "Int")
		vc.sentinels[n] = true
		return intV(n, o.Type())
	}
	comp := "global:" + o.Pkg().Path() + "." + o.Name()
	return vc.loadShape(st, comp, o.Type(), 0, func(h string) string { return h })
}

func (vc *VC) evalUnary(st *State, x *ast.UnaryExpr) *Value {
	switch x.Op {
	case token.NOT:
		v := vc.evalExpr(st, x.X)
		return boolV(smtNot(v.Term))
	case token.SUB:
		v := vc.evalExpr(st, x.X)
		T := vc.typeOf(x)
		r := intV(app("-", v.Term), T)
		return vc.arithResult(st, x, r, T)
	case token.ADD:
		return vc.evalExpr(st, x.X)
	case token.AND:
		return vc.evalAddr(st, x)
	case token.XOR:
		v := vc.evalExpr(st, x.X)
		T := vc.typeOf(x)
		if lo, hi, ok := intRange(T); ok && lo == "0" {
			return intV(app("-", hi, v.Term), T)
		}
		return intV(app("-", app("-", v.Term), "1"), T)
	case token.ARROW:
		// sequential model: a receive yields an arbitrary value of the element type (no other effect)
		vc.evalExpr(st, x.X)
		vc.dropped["channel receive at "+vc.w.pos(x.Pos())+" (arbitrary value)"] = true
		return vc.freshValue(st, "recv", vc.typeOf(x))
	}
	vc.unsupported(x, "unary %s", x.Op)
	return nil
}

func (vc *VC) evalAddr(st *State, x *ast.UnaryExpr) *Value {
	T := vc.typeOf(x)
	switch y := ast.Unparen(x.X).(type) {
	case *ast.CompositeLit:
		v := vc.evalCompositeLit(st, y)
		ref := vc.allocRef(st, "new")
		vc.store(st, vc.derefLoc(ref, vc.typeOf(y)), v)
		return intV(ref, T)
	case *ast.Ident:
		obj, _ := vc.curInfo.ObjectOf(y).(*types.Var)
		if obj != nil && vc.boxed[obj] {
			return intV(st.env[obj].Term, T)
		}
		if obj != nil && vc.isGlobal(obj) {
			n := "addr_" + mangle(obj.Pkg().Path()+"."+obj.Name())
			vc.declare(n, "Int")
			vc.addAxiom(smtNot(smtEq(n, "0")))
			vc.dropped["address of package-level variable "+obj.Name()+" (opaque non-nil pointer)"] = true
			return intV(n, T)
		}
	case *ast.SelectorExpr, *ast.IndexExpr:
		// address of a field / element: an opaque non-nil pointer; writes through it are not tracked
		// (functions doing so must not be under a contract that depends on it).
		loc := vc.evalLoc(st, y) // safety obligations of the operand
		r := vc.fresh("addr", "Int")
		st.assume(smtNot(smtEq(r, "0")))
		v := intV(r, T)
		if !loc.isVar {
			v.Addr = &loc // dependency specs may read / write the cell through deref()
		} else {
			vc.dropped["address of a field of a local struct at "+vc.w.pos(x.Pos())+" (opaque pointer)"] = true
		}
		return v
	}
	vc.unsupported(x, "address-of %T", x.X)
	return nil
}

func (vc *VC) arithResult(st *State, n ast.Node, r *Value, T types.Type) *Value {
	lo, hi, ok := intRange(T)
	if !ok {
		return r
	}
	if vc.wrapMode > 0 {
		// modular arithmetic: r mod 2^n shifted into range
		size := rangeSize(T)
		if lo == "0" {
			r.Term = app("mod", r.Term, size)
		} else {
			r.Term = app("-", app("mod", app("+", r.Term, app("div", size, "2")), size), app("div", size, "2"))
		}
		return r
	}
	vc.safety(st, "overflow", n, app("<=", lo, r.Term, hi))
	return r
}

func rangeSize(T types.Type) string {
	b := under(T).(*types.Basic)
	switch b.Kind() {
	case types.Int8, types.Uint8:
		return "256"
	case types.Int16, types.Uint16:
		return "65536"
	case types.Int32, types.Uint32:
		return "4294967296"
	}
	return "18446744073709551616"
}

func (vc *VC) pushGuard(g string) { vc.guards = append(vc.guards, g) }
func (vc *VC) popGuard()          { vc.guards = vc.guards[:len(vc.guards)-1] }

func (vc *VC) evalBinary(st *State, x *ast.BinaryExpr) *Value {
	switch x.Op {
	case token.LAND:
		a := vc.evalExpr(st, x.X)
		vc.pushGuard(a.Term)
		b := vc.evalExpr(st, x.Y)
		vc.popGuard()
		return boolV(smtAnd(a.Term, b.Term))
	case token.LOR:
		a := vc.evalExpr(st, x.X)
		vc.pushGuard(smtNot(a.Term))
		b := vc.evalExpr(st, x.Y)
		vc.popGuard()
		return boolV(smtOr(a.Term, b.Term))
	}
	a := vc.evalExpr(st, x.X)
	b := vc.evalExpr(st, x.Y)
	T := vc.typeOf(x)
	opT := vc.typeOf(x.X)
	switch x.Op {
	case token.EQL:
		return boolV(vc.equalValues(a, b))
	case token.NEQ:
		return boolV(smtNot(vc.equalValues(a, b)))
	case token.LSS, token.LEQ, token.GTR, token.GEQ:
		op := map[token.Token]string{token.LSS: "<", token.LEQ: "<=", token.GTR: ">", token.GEQ: ">="}[x.Op]
		if isString(opT) {
			vc.declareFun("strless", "(Int Int) Bool")
			switch x.Op {
			case token.LSS:
				return boolV(app("strless", a.Term, b.Term))
			case token.GTR:
				return boolV(app("strless", b.Term, a.Term))
			case token.LEQ:
				return boolV(smtNot(app("strless", b.Term, a.Term)))
			default:
				return boolV(smtNot(app("strless", a.Term, b.Term)))
			}
		}
		if !isInteger(opT) {
			vc.unsupported(x, "comparison of %s", opT)
		}
		return boolV(app(op, a.Term, b.Term))
	case token.ADD:
		if isString(T) {
			return intV(app("strcat", a.Term, b.Term), T)
		}
		if !isInteger(T) {
			vc.unsupported(x, "arithmetic on %s", T)
		}
		return vc.arithResult(st, x, intV(app("+", a.Term, b.Term), T), T)
	case token.SUB:
		if !isInteger(T) {
			vc.unsupported(x, "arithmetic on %s", T)
		}
		return vc.arithResult(st, x, intV(app("-", a.Term, b.Term), T), T)
	case token.MUL:
		if !isInteger(T) {
			vc.unsupported(x, "arithmetic on %s", T)
		}
		return vc.arithResult(st, x, intV(app("*", a.Term, b.Term), T), T)
	case token.QUO, token.REM:
		if !isInteger(T) {
			vc.unsupported(x, "arithmetic on %s", T)
		}
		vc.safety(st, "divzero", x, smtNot(smtEq(b.Term, "0")))
		// Go truncates toward zero; SMT div/mod are Euclidean. Encode truncation.
		q := vc.truncDiv(a.Term, b.Term)
		if x.Op == token.QUO {
			return vc.arithResult(st, x, intV(q, T), T)
		}
		return intV(app("-", a.Term, app("*", b.Term, q)), T)
	case token.SHL, token.SHR, token.AND, token.OR, token.XOR, token.AND_NOT:
		return vc.evalBitop(st, x, a, b, T)
	}
	vc.unsupported(x, "binary %s", x.Op)
	return nil
}

func (vc *VC) truncDiv(a, b string) string {
	// trunc(a/b) = if a >= 0 then a div b (b>0) ... general: sign-corrected
	return smtIte(app(">=", a, "0"),
		smtIte(app(">", b, "0"), app("div", a, b), app("-", app("div", a, app("-", b)))),
		smtIte(app(">", b, "0"), app("-", app("div", app("-", a), b)), app("div", app("-", a), app("-", b))))
}

func (vc *VC) evalBitop(st *State, x *ast.BinaryExpr, a, b *Value, T types.Type) *Value {
	// shifts by constants become multiplications/divisions; other bit operations are uninterpreted within range
	if tv, ok := vc.curInfo.Types[x.Y]; ok && tv.Value != nil && (x.Op == token.SHL || x.Op == token.SHR) {
		if n, ok := constant.Int64Val(constant.ToInt(tv.Value)); ok && n >= 0 && n < 63 {
			p := fmt.Sprint(int64(1) << uint(n))
			if x.Op == token.SHL {
				old := vc.wrapMode
				if lo, _, ok := intRange(T); ok && lo == "0" {
					vc.wrapMode = 1 // unsigned shifts wrap by definition
				}
				r := vc.arithResult(st, x, intV(app("*", a.Term, p), T), T)
				vc.wrapMode = old
				return r
			}
			if lo, _, ok := intRange(T); ok && lo == "0" {
				return intV(app("div", a.Term, p), T)
			}
		}
	}
	r := vc.freshValue(st, "bitop", T)
	vc.dropped["bit operation at "+vc.w.pos(x.Pos())+" (result unconstrained within its type)"] = true
	if x.Op == token.AND {
		if lo, _, ok := intRange(T); ok && lo == "0" {
			st.assume(app("<=", r.Term, a.Term))
			st.assume(app("<=", r.Term, b.Term))
		}
	}
	return r
}

func (vc *VC) equalValues(a, b *Value) string {
	if a.K == VSlice || b.K == VSlice {
		// only comparison with nil is legal
		s := a
		if b.K == VSlice && (a.K != VSlice || a.Arr == "0") {
			s = b
		}
		return smtEq(s.Arr, "0")
	}
	if a.K == VStruct && b.K == VStruct {
		return vc.valueEq(a, b)
	}
	if a.K == VInt && b.K == VInt || a.K == VBool && b.K == VBool {
		return smtEq(a.Term, b.Term)
	}
	return "false"
}

func (vc *VC) evalSelector(st *State, x *ast.SelectorExpr) *Value {
	s := vc.curInfo.Selections[x]
	if s == nil {
		// qualified identifier
		return vc.evalIdent(st, x.Sel)
	}
	switch s.Kind() {
	case types.FieldVal:
		baseT := vc.typeOf(x.X)
		v := vc.evalExpr(st, x.X)
		T := baseT
		for _, idx := range s.Index() {
			if p, ok := under(T).(*types.Pointer); ok {
				vc.safety(st, "nil", x, smtNot(smtEq(v.Term, "0")))
				sT := under(p.Elem()).(*types.Struct)
				f := sT.Field(idx)
				v = vc.loadField(st, v.Term, p.Elem(), f.Name(), f.Type())
				T = f.Type()
				continue
			}
			sT := under(T).(*types.Struct)
			f := sT.Field(idx)
			if v.K != VStruct || v.Fields[f.Name()] == nil {
				vc.unsupported(x, "field %s of non-struct value", f.Name())
			}
			v = v.Fields[f.Name()]
			T = f.Type()
		}
		return v
	case types.MethodVal:
		recv := vc.evalExpr(st, x.X)
		fn := s.Obj().(*types.Func)
		return &Value{K: VInt, Term: vc.fresh("methodval", "Int"), T: vc.typeOf(x), Fn: &FuncVal{Decl: fn, Recv: recv}}
	}
	vc.unsupported(x, "selector kind")
	return nil
}

func (vc *VC) evalIndex(st *State, x *ast.IndexExpr) *Value {
	bt := vc.typeOf(x.X)
	if bt == nil {
		vc.unsupported(x, "index on untyped")
	}
	if _, ok := vc.curInfo.Instances[identOf(x.X)]; ok {
		// explicit instantiation f[T]
		return vc.evalExpr(st, x.X)
	}
	switch u := under(bt).(type) {
	case *types.Slice:
		s := vc.evalExpr(st, x.X)
		i := vc.evalExpr(st, x.Index)
		vc.safety(st, "bounds", x, smtAnd(app("<=", "0", i.Term), app("<", i.Term, s.Len)))
		return vc.loadElem(st, s, i.Term, u.Elem())
	case *types.Basic:
		if u.Info()&types.IsString != 0 {
			s := vc.evalExpr(st, x.X)
			i := vc.evalExpr(st, x.Index)
			vc.safety(st, "bounds", x, smtAnd(app("<=", "0", i.Term), app("<", i.Term, app("strlen", s.Term))))
			r := intV(app("strat", s.Term, i.Term), types.Typ[types.Uint8])
			st.assume(app("<=", "0", r.Term, "255"))
			return r
		}
	case *types.Map:
		v, _ := vc.mapLookup(st, x)
		return v
	case *types.Array:
		vc.unsupported(x, "array index")
	}
	vc.unsupported(x, "index on %s", bt)
	return nil
}

func identOf(e ast.Expr) *ast.Ident {
	switch x := e.(type) {
	case *ast.Ident:
		return x
	case *ast.SelectorExpr:
		return x.Sel
	}
	return nil
}

func (vc *VC) mapLookup(st *State, x *ast.IndexExpr) (*Value, string) {
	bt := vc.typeOf(x.X)
	u := under(bt).(*types.Map)
	m := vc.evalExpr(st, x.X)
	k := vc.evalExpr(st, x.Index)
	kt := vc.mapKeyTerm(x, k)
	return vc.mapGet(st, bt, u, m.Term, kt)
}

func (vc *VC) mapGet(st *State, mapT types.Type, u *types.Map, m, k string) (*Value, string) {
	mp := mapCompPrefix(mapT)
	dom := vc.heapGet(st, mp+".dom", "(Array Int (Array Int Bool))")
	in := smtAnd(smtNot(smtEq(m, "0")), sel2(dom, m, k))
	val := vc.loadShape(st, mp+".val", u.Elem(), 2, func(h string) string { return sel2(h, m, k) })
	zero := vc.zeroValue(u.Elem())
	return vc.iteValue(in, val, zero), in
}

// mapLen: number of keys, an uninterpreted function of the domain component and the map reference.
func (vc *VC) mapLen(st *State, mapT types.Type, m string) string {
	vc.declareFun("maplen", "((Array Int Bool) Int) Int")
	vc.addAxiom("(forall ((d (Array Int Bool)) (m Int)) (! (>= (maplen d m) 0) :pattern ((maplen d m))))")
	dom := vc.heapGet(st, mapCompPrefix(mapT)+".dom", "(Array Int (Array Int Bool))")
	return smtIte(smtEq(m, "0"), "0", app("maplen", dom, m))
}

func (vc *VC) mapLenZero(st *State, mapT types.Type, m string) {
	vc.declareFun("maplen", "((Array Int Bool) Int) Int")
	dom := vc.heapGet(st, mapCompPrefix(mapT)+".dom", "(Array Int (Array Int Bool))")
	st.assume(smtEq(app("maplen", dom, m), "0"))
}

func (vc *VC) mapSet(st *State, mapT types.Type, u *types.Map, m, k string, val *Value) {
	mp := mapCompPrefix(mapT)
	dom := vc.heapGet(st, mp+".dom", "(Array Int (Array Int Bool))")
	vc.heapUpdate(st, mp+".dom", "(Array Int (Array Int Bool))", m, sto2(dom, m, k, "true"))
	vc.storeShape(st, mp+".val", u.Elem(), 2, m, func(h, v string) string { return sto2(h, m, k, v) }, val)
}

func (vc *VC) mapDelete(st *State, mapT types.Type, m, k string) {
	mp := mapCompPrefix(mapT)
	dom := vc.heapGet(st, mp+".dom", "(Array Int (Array Int Bool))")
	vc.heapUpdate(st, mp+".dom", "(Array Int (Array Int Bool))", m, smtIte(smtEq(m, "0"), dom, sto2(dom, m, k, "false")))
}

func (vc *VC) evalSliceExpr(st *State, x *ast.SliceExpr) *Value {
	bt := vc.typeOf(x.X)
	base := vc.evalExpr(st, x.X)
	lo := "0"
	if x.Low != nil {
		lo = vc.evalExpr(st, x.Low).Term
	}
	if isString(bt) {
		n := app("strlen", base.Term)
		hi := n
		if x.High != nil {
			hi = vc.evalExpr(st, x.High).Term
		}
		vc.safety(st, "slice", x, smtAnd(app("<=", "0", lo), app("<=", lo, hi), app("<=", hi, n)))
		return vc.substr(st, base.Term, lo, hi, bt)
	}
	if _, ok := under(bt).(*types.Slice); !ok {
		vc.unsupported(x, "slice of %s", bt)
	}
	hi := base.Len
	if x.High != nil {
		hi = vc.evalExpr(st, x.High).Term
	}
	limit := base.Cap
	capTerm := app("-", base.Cap, lo)
	if x.Max != nil {
		mx := vc.evalExpr(st, x.Max).Term
		vc.safety(st, "slice", x, smtAnd(app("<=", "0", lo), app("<=", lo, hi), app("<=", hi, mx), app("<=", mx, limit)))
		capTerm = app("-", mx, lo)
	} else {
		vc.safety(st, "slice", x, smtAnd(app("<=", "0", lo), app("<=", lo, hi), app("<=", hi, limit)))
	}
	off := base.Off
	if lo != "0" {
		if off == "0" {
			off = lo
		} else {
			off = app("+", base.Off, lo)
		}
	}
	ln := hi
	if lo != "0" {
		ln = app("-", hi, lo)
	}
	return &Value{K: VSlice, T: vc.typeOf(x), Arr: base.Arr, Off: off, Len: ln, Cap: capTerm}
}

func (vc *VC) substr(st *State, s, lo, hi string, T types.Type) *Value {
	vc.declareFun("substr", "(Int Int Int) Int")
	vc.addAxiomKeyed([]string{"substr"}, "(forall ((s Int) (i Int) (j Int)) (! (=> (and (<= 0 i) (<= i j) (<= j (strlen s))) (= (strlen (substr s i j)) (- j i))) :pattern ((substr s i j))))")
	vc.addAxiomKeyed([]string{"substr"}, "(forall ((s Int) (i Int) (j Int) (k Int)) (! (=> (and (<= 0 i) (<= 0 k) (< k (- j i)) (<= j (strlen s))) (= (strat (substr s i j) k) (strat s (+ i k)))) :pattern ((strat (substr s i j) k))))")
	vc.addAxiomKeyed([]string{"substr"}, "(forall ((s Int)) (! (= (substr s 0 (strlen s)) s) :pattern ((substr s 0 (strlen s)))))")
	return intV(app("substr", s, lo, hi), T)
}

func (vc *VC) evalCompositeLit(st *State, x *ast.CompositeLit) *Value {
	T := vc.typeOf(x)
	switch u := under(T).(type) {
	case *types.Struct:
		v := vc.zeroValue(T)
		for i, el := range x.Elts {
			if kv, ok := el.(*ast.KeyValueExpr); ok {
				name := kv.Key.(*ast.Ident).Name
				fv := vc.evalExprTo(st, kv.Value, fieldType(u, name))
				v.Fields[name] = fv
			} else {
				f := u.Field(i)
				v.Fields[f.Name()] = vc.evalExprTo(st, el, f.Type())
			}
		}
		return v
	case *types.Slice:
		arr := vc.allocArr(st, "lit")
		n := 0
		s := &Value{K: VSlice, T: T, Arr: arr, Off: "0"}
		for _, el := range x.Elts {
			if _, ok := el.(*ast.KeyValueExpr); ok {
				vc.unsupported(x, "keyed slice literal")
			}
			var ev *Value
			if cl, ok := el.(*ast.CompositeLit); ok && cl.Type == nil {
				ev = vc.evalCompositeLit(st, cl)
			} else {
				ev = vc.evalExprTo(st, el, u.Elem())
			}
			s.Len = fmt.Sprint(n + 1)
			s.Cap = s.Len
			vc.storeElem(st, s, fmt.Sprint(n), u.Elem(), ev)
			n++
		}
		s.Len = fmt.Sprint(n)
		s.Cap = s.Len
		return s
	case *types.Map:
		m := vc.allocRef(st, "maplit")
		mp := mapCompPrefix(T)
		vc.rowUpdate(st, mp+".dom", "(Array Int (Array Int Bool))", m, func(i, nc, oc string) string { return smtNot(nc) })
		vc.mapLenZero(st, T, m)
		for _, el := range x.Elts {
			kv := el.(*ast.KeyValueExpr)
			k := vc.evalExpr(st, kv.Key)
			var v *Value
			if cl, ok := kv.Value.(*ast.CompositeLit); ok && cl.Type == nil {
				v = vc.evalCompositeLit(st, cl)
			} else {
				v = vc.evalExprTo(st, kv.Value, u.Elem())
			}
			vc.mapSet(st, T, u, m, vc.mapKeyTerm(kv, k), v)
		}
		return intV(m, T)
	}
	vc.unsupported(x, "composite literal of %s", T)
	return nil
}

func fieldType(s *types.Struct, name string) types.Type {
	for i := 0; i < s.NumFields(); i++ {
		if s.Field(i).Name() == name {
			return s.Field(i).Type()
		}
	}
	return nil
}

func (vc *VC) allocArr(st *State, hint string) string {
	// backing arrays share the allocation map with objects (ids are disjoint by construction)
	return vc.allocRef(st, "arr_"+hint)
}

// evalExprTo evaluates e and converts the result to the (static) target type (interface boxing).
func (vc *VC) evalExprTo(st *State, e ast.Expr, to types.Type) *Value {
	v := vc.evalExpr(st, e)
	return vc.convertTo(st, v, vc.typeOf(e), to)
}

func (vc *VC) convertTo(st *State, v *Value, from, to types.Type) *Value {
	if to == nil || from == nil || v == nil {
		return v
	}
	if isInterface(to) && !isInterface(from) {
		if b, ok := from.(*types.Basic); ok && b.Kind() == types.UntypedNil {
			return intV("0", to)
		}
		return vc.toInterface(st, v, from, to)
	}
	if v.K == VInt && v.Term == "0" && v.T == nil && (shapeOf(to) == shSlice) {
		return vc.zeroValue(to)
	}
	if v.K == VInt || v.K == VBool {
		if v.T == nil || !types.Identical(v.T, to) {
			n := *v
			n.T = to
			return &n
		}
	}
	return v
}

func (vc *VC) toInterface(st *State, v *Value, from, to types.Type) *Value {
	tag := vc.typeTag(from)
	switch v.K {
	case VInt:
		r := intV(app("mkiface", tag, v.Term), to)
		r.Fn = v.Fn
		return r
	case VBool:
		return intV(app("mkiface", tag, smtIte(v.Term, "1", "0")), to)
	}
	if p := vc.packStruct(v, from); p != "" {
		return intV(app("mkiface", tag, p), to)
	}
	// composite values boxed into an interface: opaque box (contents not tracked)
	b := vc.fresh("box", "Int")
	vc.dropped["composite value boxed into interface (contents not tracked)"] = true
	return intV(app("mkiface", tag, b), to)
}

func (vc *VC) evalTypeAssert(st *State, x *ast.TypeAssertExpr) (*Value, string) {
	v := vc.evalExpr(st, x.X)
	T := vc.typeOf(x.Type)
	if isInterface(T) {
		// interface-to-interface assertion: succeeds for non-nil values whose dynamic type implements T (unknown)
		ok := vc.fresh("implements", "Bool")
		st.assume(smtImp(ok, smtNot(smtEq(v.Term, "0"))))
		vc.ifaceAsserts = append(vc.ifaceAsserts, ifaceAssert{ok: ok, val: v.Term, T: T})
		return intV(v.Term, T), ok
	}
	ok := smtAnd(smtNot(smtEq(v.Term, "0")), smtEq(app("typeof", v.Term), vc.typeTag(T)))
	switch shapeOf(T) {
	case shInt:
		r := intV(smtIte(ok, app("ptrof", v.Term), "0"), T)
		return r, ok
	case shBool:
		return &Value{K: VBool, T: T, Term: smtAnd(ok, smtEq(app("ptrof", v.Term), "1"))}, ok
	}
	r := vc.freshValue(st, "unboxed", T)
	if p := vc.packStruct(r, T); p != "" {
		// a struct of scalars travels through an interface as an injective tuple of its leaves
		st.assume(smtImp(ok, smtEq(p, app("ptrof", v.Term))))
	}
	return r, ok
}

// packStruct: the value of a struct whose leaves are all scalars, as one Int (an injective tuple constructor per
// struct type); "" when the value holds slices.
func (vc *VC) packStruct(v *Value, T types.Type) string {
	if v == nil || v.K != VStruct {
		return ""
	}
	var ls []string
	okAll := true
	v.leaves("", func(path string, leaf *Value, isBool bool) {
		if strings.Contains(path, "#") {
			okAll = false
			return
		}
		if isBool {
			ls = append(ls, smtIte(leaf.Term, "1", "0"))
		} else {
			ls = append(ls, leaf.Term)
		}
	})
	if !okAll || len(ls) == 0 {
		return ""
	}
	f := "pack!" + vc.typeTag(T)
	if _, ok := vc.decls[f]; !ok {
		doms := strings.TrimSpace(strings.Repeat("Int ", len(ls)))
		vc.declareFun(f, "("+doms+") Int")
		var bs, xs []string
		for i := range ls {
			bs = append(bs, fmt.Sprintf("(x%d Int)", i))
			xs = append(xs, fmt.Sprintf("x%d", i))
		}
		call := "(" + f + " " + strings.Join(xs, " ") + ")"
		var eqs []string
		for i := range ls {
			u := fmt.Sprintf("un%d!%s", i, f)
			vc.declareFun(u, "(Int) Int")
			eqs = append(eqs, smtEq(app(u, call), xs[i]))
		}
		vc.addAxiomKeyed([]string{f}, "(forall ("+strings.Join(bs, " ")+") (! "+smtAnd(eqs...)+" :pattern ("+call+")))")
	}
	return "(" + f + " " + strings.Join(ls, " ") + ")"
}

package main

import (
	"bytes"
	"context"
	"crypto/sha1"
	"fmt"
	"os"
	"os/exec"
	"path/filepath"
	"strings"
	"sync"
	"time"
)

type SolverCfg struct {
	Thorough bool
	WorkDir  string
	TimeoutS int
	Seed     int
	Jobs     int
}

func symbolsOf(s string, into map[string]bool) {
	start := -1
	for i := 0; i <= len(s); i++ {
		var c byte = ' '
		if i < len(s) {
			c = s[i]
		}
		if c == '(' || c == ')' || c == ' ' || c == '\n' || c == '\t' {
			if start >= 0 {
				into[s[start:i]] = true
				start = -1
			}
		} else if start < 0 {
			start = i
		}
	}
}

// smt renders the query. Declarations and axioms are filtered by relevance: an axiom is included
// when every declared symbol it mentions is used by the path condition, the goal or an included axiom.
func (o *Obligation) smt(seed int, withModel bool) string {
	return o.smtOpt(seed, withModel, false)
}

// smtOpt: relaxed = without the quantified facts and axioms (a weaker set of assumptions: a model of it is only a
// candidate input, to be confirmed by running the real code).
func (o *Obligation) smtOpt(seed int, withModel bool, relaxed bool) string {
	used := map[string]bool{}
	seen := map[string]bool{}
	var pcs []string
	for _, p := range o.PC {
		if seen[p] {
			continue
		}
		if relaxed && (strings.Contains(p, "(forall ") || strings.Contains(p, "(exists ")) {
			continue
		}
		seen[p] = true
		pcs = append(pcs, p)
		symbolsOf(p, used)
	}
	symbolsOf(o.Goal, used)
	declared := o.DeclMap
	type ax struct {
		text string
		syms []string
		in   bool
	}
	axs := make([]*ax, len(o.Axioms))
	for i, a := range o.Axioms {
		if relaxed && (strings.Contains(a, "(forall ") || strings.Contains(a, "(exists ")) {
			axs[i] = &ax{text: a, syms: []string{"\x00never"}}
			continue
		}
		m := map[string]bool{}
		symbolsOf(a, m)
		x := &ax{text: a}
		if keys, ok := o.AxiomKeys[a]; ok {
			x.syms = keys
		} else {
			for k := range m {
				if _, ok := declared[k]; ok {
					x.syms = append(x.syms, k)
				}
			}
		}
		axs[i] = x
	}
	for changed := true; changed; {
		changed = false
		for _, x := range axs {
			if x.in {
				continue
			}
			ok := true
			for _, sname := range x.syms {
				if !used[sname] {
					ok = false
					break
				}
			}
			if ok {
				x.in = true
				changed = true
				symbolsOf(x.text, used)
			}
		}
	}
	var b strings.Builder
	b.WriteString("(set-option :produce-models true)\n(set-logic ALL)\n")
	for _, n := range o.DeclOrder {
		if used[n] {
			b.WriteString(declared[n])
			b.WriteByte('\n')
		}
	}
	for _, x := range axs {
		if x.in {
			b.WriteString("(assert " + x.text + ")\n")
		}
	}
	for _, g := range o.Distinct {
		var ms []string
		for _, n := range g {
			if used[n] {
				ms = append(ms, n)
			}
		}
		if len(ms) > 1 {
			b.WriteString("(assert (distinct " + strings.Join(ms, " ") + "))\n")
		}
	}
	for _, p := range pcs {
		b.WriteString("(assert " + p + ")\n")
	}
	b.WriteString("(assert (not " + o.Goal + "))\n")
	b.WriteString("(check-sat)\n")
	if withModel && len(o.Inputs) > 0 {
		var ts []string
		seenT := map[string]bool{}
		for _, in := range o.Inputs {
			if seenT[in.Term] || strings.Contains(in.Term, "!") {
				continue
			}
			okT := used[in.Term]
			if !okT && strings.HasPrefix(in.Term, "(") {
				// compound term (a cell of the entry heap): every symbol in it must be part of the query
				ss := map[string]bool{}
				symbolsOf(in.Term, ss)
				okT = true
				for k := range ss {
					if _, isDecl := declared[k]; isDecl && !used[k] {
						okT = false
					}
				}
			}
			if okT {
				seenT[in.Term] = true
				ts = append(ts, in.Term)
			}
		}
		if len(ts) > 0 {
			b.WriteString("(get-value (" + strings.Join(ts, " ") + "))\n")
		}
	}
	return b.String()
}

type solverAnswer struct {
	backend string
	result  string // sat unsat unknown timeout error
	out     string
	dur     float64
}

func runSolver(ctx context.Context, backend, file string, timeoutS int, seed int) solverAnswer {
	var cmd *exec.Cmd
	switch backend {
	case "z3-new":
		cmd = exec.CommandContext(ctx, "z3-new", fmt.Sprintf("-T:%d", timeoutS), fmt.Sprintf("smt.random_seed=%d", seed), file)
	case "z3":
		cmd = exec.CommandContext(ctx, "z3", fmt.Sprintf("-T:%d", timeoutS), fmt.Sprintf("smt.random_seed=%d", seed), file)
	case "cvc5":
		cmd = exec.CommandContext(ctx, "cvc5", fmt.Sprintf("--tlimit=%d", timeoutS*1000), fmt.Sprintf("--seed=%d", seed), "--produce-models", file)
	}
	var out bytes.Buffer
	cmd.Stdout = &out
	cmd.Stderr = &out
	t0 := time.Now()
	err := cmd.Run()
	dur := time.Since(t0).Seconds()
	s := out.String()
	first := strings.TrimSpace(strings.SplitN(s, "\n", 2)[0])
	res := "error"
	switch {
	case first == "sat" || first == "unsat" || first == "unknown":
		res = first
	case first == "timeout" || strings.Contains(s, "interrupted by timeout") || strings.Contains(s, "timeout"):
		res = "timeout"
	case ctx.Err() != nil:
		res = "cancelled"
	case err != nil:
		res = "error"
	}
	return solverAnswer{backend, res, s, dur}
}

// discharge decides one obligation: first z3-new alone with a short limit, then all back ends raced.
// discharge decides one obligation. A goal that is a conjunction is split into its conjuncts (smaller goals
// are decided far more reliably); every conjunct must be discharged.
func discharge(o *Obligation, cfg SolverCfg) {
	if o.Status == "discharged" {
		return // decided by the batch pass
	}
	if !o.Vacuity {
		if parts := splitConj(o.Goal); len(parts) > 1 {
			t0 := time.Now()
			o.Answers = map[string]string{}
			status, backend := "discharged", ""
			for i, part := range parts {
				sub := *o
				sub.Goal = part
				sub.ID = fmt.Sprintf("%s.part%d", o.ID, i+1)
				sub.Status, sub.Backend, sub.Model, sub.Answers = "", "", nil, nil
				dischargeOne(&sub, cfg)
				for k, v := range sub.Answers {
					o.Answers[fmt.Sprintf("part%d:%s", i+1, k)] = v
				}
				backend = sub.Backend
				if sub.Status != "discharged" {
					status = sub.Status
					o.Model = sub.Model
					o.SMTFile = sub.SMTFile
					break
				}
				o.SMTFile = sub.SMTFile
			}
			o.Status, o.Backend = status, backend
			o.TimeS = time.Since(t0).Seconds()
			return
		}
	}
	dischargeOne(o, cfg)
}

// splitConj returns the top-level conjuncts of an SMT term (and a b c) recursively flattened.
func splitConj(g string) []string {
	n := parseSx(g)
	if n == nil || n.atom != "" || len(n.kids) < 3 || n.kids[0].atom != "and" {
		return []string{g}
	}
	var out []string
	for _, k := range n.kids[1:] {
		out = append(out, splitConj(k.render())...)
	}
	return out
}

func dischargeOne(o *Obligation, cfg SolverCfg) {
	if o.Goal == "true" && !o.Vacuity {
		o.Status, o.Backend = "discharged", "trivial"
		return
	}
	q := o.smt(cfg.Seed, true)
	h := sha1.Sum([]byte(o.ID))
	file := filepath.Join(cfg.WorkDir, fmt.Sprintf("%s_%x.smt2", mangle(o.ID), h[:4]))
	if len(file) > 200 {
		file = filepath.Join(cfg.WorkDir, fmt.Sprintf("o_%x.smt2", h[:10]))
	}
	os.WriteFile(file, []byte(q), 0o644)
	o.SMTFile = file
	o.Answers = map[string]string{}
	t0 := time.Now()
	decide := func(a solverAnswer) bool {
		o.Answers[a.backend] = a.result
		switch a.result {
		case "unsat":
			if o.Vacuity {
				o.Status = "vacuous"
			} else {
				o.Status = "discharged"
			}
			o.Backend = a.backend
			return true
		case "sat":
			if o.Vacuity {
				o.Status = "discharged"
			} else {
				o.Status = "refuted"
				o.Model = parseModel(a.out)
			}
			o.Backend = a.backend
			return true
		}
		return false
	}
	backs := []string{"z3-new", "cvc5"}
	if cfg.Thorough {
		backs = []string{"z3-new", "z3", "cvc5"}
	}
	limit := cfg.TimeoutS
	if o.Vacuity {
		// only a proof of `false` matters here; do not wait for a model
		backs = []string{"z3-new"}
		if limit > 2 && !cfg.Thorough {
			limit = 2
		}
		if limit > 6 {
			limit = 6
		}
	}
	// quantifier-free looking goals are almost always decided by z3 at once: try it alone first, briefly
	if !o.Vacuity && !strings.Contains(o.Goal, "forall") && !strings.Contains(o.Goal, "exists") {
		a := runSolver(context.Background(), "z3-new", file, 1, cfg.Seed)
		if decide(a) {
			o.TimeS = time.Since(t0).Seconds()
			return
		}
	}
	// portfolio: instantiation order depends heavily on the random seed, so z3 runs with several seeds
	type job struct {
		backend string
		seed    int
	}
	var jobs []job
	for _, b := range backs {
		jobs = append(jobs, job{b, cfg.Seed})
		if b == "z3-new" && !o.Vacuity {
			jobs = append(jobs, job{b, cfg.Seed + 1}, job{b, cfg.Seed + 2}, job{b, cfg.Seed + 3})
		}
	}
	ctx, cancel := context.WithCancel(context.Background())
	ch := make(chan solverAnswer, len(jobs))
	for _, j := range jobs {
		go func(j job) { ch <- runSolver(ctx, j.backend, file, limit, j.seed) }(j)
	}
	done := false
	for range jobs {
		a := <-ch
		if done {
			continue
		}
		if a.result == "cancelled" {
			continue
		}
		if decide(a) {
			done = true
			cancel()
		}
	}
	cancel()
	o.TimeS = time.Since(t0).Seconds()
	if !done {
		if o.Vacuity {
			// no back end proved the assumptions contradictory: fine
			o.Status, o.Backend = "discharged", "no-contradiction-found"
		} else {
			o.Status = "unknown"
		}
	}
}

func parseModel(out string) map[string]string {
	m := map[string]string{}
	i := strings.Index(out, "\n")
	if i < 0 {
		return m
	}
	body := strings.TrimSpace(out[i+1:])
	// ((t1 v1) (t2 v2) ...), terms may be nested s-expressions
	toks := sexprSplit(body)
	if len(toks) == 1 {
		toks = sexprSplit(strings.TrimSuffix(strings.TrimPrefix(toks[0], "("), ")"))
	}
	for _, pair := range toks {
		inner := sexprSplit(strings.TrimSuffix(strings.TrimPrefix(pair, "("), ")"))
		if len(inner) == 2 {
			m[inner[0]] = normalizeNum(inner[1])
		}
	}
	return m
}

func normalizeNum(s string) string {
	s = strings.TrimSpace(s)
	if strings.HasPrefix(s, "(- ") {
		return "-" + strings.TrimSpace(strings.TrimSuffix(s[3:], ")"))
	}
	return s
}

func sexprSplit(s string) []string {
	var out []string
	d := 0
	start := -1
	for i := 0; i < len(s); i++ {
		c := s[i]
		switch {
		case c == '(':
			if d == 0 && start < 0 {
				start = i
			}
			d++
		case c == ')':
			d--
			if d == 0 && start >= 0 {
				out = append(out, s[start:i+1])
				start = -1
			}
		case c == ' ' || c == '\n' || c == '\t':
			if d == 0 && start >= 0 {
				out = append(out, s[start:i])
				start = -1
			}
		default:
			if start < 0 {
				start = i
			}
		}
	}
	if start >= 0 {
		out = append(out, s[start:])
	}
	return out
}

func dischargeAll(obls []*Obligation, cfg SolverCfg) {
	// identical queries (same assumptions and goal reached along different paths) are decided once
	first := map[string]*Obligation{}
	var dups [][2]*Obligation
	var uniq []*Obligation
	for _, o := range obls {
		if (o.Goal == "true" && !o.Vacuity) || o.Status == "discharged" {
			uniq = append(uniq, o)
			continue
		}
		h := sha1.Sum([]byte(o.smt(cfg.Seed, false)))
		k := string(h[:])
		if f, ok := first[k]; ok {
			dups = append(dups, [2]*Obligation{o, f})
			continue
		}
		first[k] = o
		uniq = append(uniq, o)
	}
	defer func() {
		for _, d := range dups {
			d[0].Status, d[0].Backend, d[0].Model, d[0].Answers, d[0].SMTFile = d[1].Status, d[1].Backend+"(same query)", d[1].Model, d[1].Answers, d[1].SMTFile
		}
	}()
	obls = uniq
	var wg sync.WaitGroup
	sem := make(chan struct{}, cfg.Jobs)
	for _, o := range obls {
		wg.Add(1)
		sem <- struct{}{}
		go func(o *Obligation) {
			defer wg.Done()
			defer func() { <-sem }()
			discharge(o, cfg)
		}(o)
	}
	wg.Wait()
	// last chance: an obligation no back end decided within the limit is tried once more alone, with a long limit and
	// other seeds, a few at a time (a loaded machine must not turn a proof that exists into an alarm)
	var undecided []*Obligation
	for _, o := range obls {
		if o.Status == "unknown" && !o.Vacuity {
			undecided = append(undecided, o)
		}
	}
	if len(undecided) == 0 || len(undecided) > 12 || cfg.Thorough {
		return // (the thorough tier already runs with a long limit)
	}
	sem2 := make(chan struct{}, 6)
	for _, o := range undecided {
		wg.Add(1)
		sem2 <- struct{}{}
		go func(o *Obligation) {
			defer wg.Done()
			defer func() { <-sem2 }()
			c2 := cfg
			c2.TimeoutS = cfg.TimeoutS * 3
			c2.Seed = cfg.Seed + 7
			prev := o.TimeS
			discharge(o, c2)
			o.TimeS += prev
			if o.Status == "discharged" {
				o.Backend += "(retry)"
			}
		}(o)
	}
	wg.Wait()
}

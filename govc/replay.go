package main

import (
	"context"
	"encoding/json"
	"fmt"
	"os"
	"path/filepath"
)

type ReplayFile struct {
	Path          string            `json:"-"`
	Property      string            `json:"property"`
	Obligation    string            `json:"obligation"`
	Family        string            `json:"family"`
	Kind          string            `json:"kind"`
	At            string            `json:"at"`
	Text          string            `json:"text"`
	Status        string            `json:"status"`
	Answers       map[string]string `json:"solver_answers"`
	Model         map[string]string `json:"model,omitempty"`
	Inputs        map[string]string `json:"inputs,omitempty"`
	SMT           string            `json:"smt_query,omitempty"`
	Outcome       string            `json:"outcome"` // reproduced | not-reproduced | no-adaptor | no-model
	ReplayLog     string            `json:"replay_log,omitempty"`
	TestSource    string            `json:"test_source,omitempty"`
	TestPkg       string            `json:"test_pkg,omitempty"`
	TestName      string            `json:"test_name,omitempty"`
	CandidateOnly bool              `json:"model_is_candidate_from_relaxed_query,omitempty"`
}

func relaxedModel(o *Obligation) map[string]string {
	dir, err := os.MkdirTemp("", "govc-relax")
	if err != nil {
		return nil
	}
	defer os.RemoveAll(dir)
	f := filepath.Join(dir, "q.smt2")
	os.WriteFile(f, []byte(o.smtOpt(0, true, true)), 0o644)
	a := runSolver(context.Background(), "z3-new", f, 5, 0)
	if a.result != "sat" {
		return nil
	}
	return parseModel(a.out)
}

// at most this many executable replays per run (each one compiles a test binary)
var replayBudget = 6

func writeReplay(w *World, dir, prop string, o *Obligation) *ReplayFile {
	rp := &ReplayFile{Property: prop, Obligation: o.ID, Family: o.Family, Kind: o.Kind, At: o.Pos, Text: o.Text, Status: o.Status, Answers: o.Answers, Model: o.Model}
	rp.Path = filepath.Join(dir, mangle(o.Family)+".json")
	if o.SMTFile != "" {
		if d, err := os.ReadFile(o.SMTFile); err == nil {
			if len(d) > 400000 {
				d = d[:400000]
			}
			rp.SMT = string(d)
		}
	}
	rp.Inputs = map[string]string{}
	for _, in := range o.Inputs {
		if v, ok := o.Model[in.Term]; ok {
			rp.Inputs[in.Name] = v
		}
	}
	if o.Status != "refuted" && o.Goal != "" && len(o.DeclMap) > 0 {
		// the solvers gave no model (quantifiers): ask for a model of the quantifier-free part of the assumptions.
		// It is only a candidate input - it counts if, and only if, the real code fails on it.
		if m := relaxedModel(o); len(m) > 0 {
			rp.Model = m
			rp.CandidateOnly = true
			for _, in := range o.Inputs {
				if v, ok := m[in.Term]; ok {
					rp.Inputs[in.Name] = v
				}
			}
		}
	}
	switch {
	case len(rp.Inputs) == 0 && (o.Status != "refuted" || len(o.Model) == 0):
		rp.Outcome = "no-model"
	case replayBudget <= 0:
		rp.Outcome = "no-adaptor"
		rp.ReplayLog = "replay not attempted: the budget of executable replays of this run is used up"
	default:
		replayBudget--
		tryReplay(w, o, rp)
		if rp.CandidateOnly && rp.Outcome != "reproduced" {
			rp.Outcome = "no-model"
		}
	}
	data, _ := json.MarshalIndent(rp, "", " ")
	os.WriteFile(rp.Path, data, 0o644)
	return rp
}

func rerunReplay(path string) int {
	var rp ReplayFile
	if err := loadJSON(path, &rp); err != nil {
		fmt.Fprintln(os.Stderr, err)
		return 2
	}
	fmt.Printf("replay %s: obligation %s (%s) at %s\n  %s\n  stored outcome: %s\n", path, rp.Obligation, rp.Status, rp.At, rp.Text, rp.Outcome)
	if rp.TestSource == "" {
		fmt.Println("  no executable replay stored (no-failing-input-found); solver answers:", rp.Answers)
		return 1
	}
	out, ok := runOverlayTest(rp.TestPkg, rp.TestName, rp.TestSource)
	fmt.Println(out)
	if ok {
		fmt.Println("  REPRODUCED")
		return 1
	}
	fmt.Println("  not reproduced")
	return 0
}

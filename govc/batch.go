package main

import (
	"bufio"
	"bytes"
	"context"
	"fmt"
	"os"
	"os/exec"
	"path/filepath"
	"strings"
	"time"
)

// Batch discharge: all obligations of one function are sent to one incremental z3 process. Their path
// conditions form a prefix tree (obligations on the same path share their assumptions), which is walked
// with push/pop. Anything not proved here (timeout / unknown / sat) is re-decided by a stand-alone query
// with relevance-filtered axioms (discharge), so the batch pass can only turn obligations into `discharged`.

type trieNode struct {
	assumption string
	kids       []*trieNode
	kidIdx     map[string]*trieNode
	obls       []*Obligation
}

func batchDischarge(fname string, obls []*Obligation, cfg SolverCfg) {
	var todo []*Obligation
	for _, o := range obls {
		if o.Goal == "true" && !o.Vacuity {
			o.Status, o.Backend = "discharged", "trivial"
			continue
		}
		if o.Vacuity {
			continue // decided individually (needs a different success criterion)
		}
		todo = append(todo, o)
	}
	if len(todo) == 0 {
		return
	}
	root := &trieNode{kidIdx: map[string]*trieNode{}}
	for _, o := range todo {
		n := root
		seen := map[string]bool{}
		for _, p := range o.PC {
			if seen[p] {
				continue
			}
			seen[p] = true
			k := n.kidIdx[p]
			if k == nil {
				k = &trieNode{assumption: p, kidIdx: map[string]*trieNode{}}
				n.kidIdx[p] = k
				n.kids = append(n.kids, k)
			}
			n = k
		}
		n.obls = append(n.obls, o)
	}
	o0 := todo[0]
	var b bytes.Buffer
	b.WriteString("(set-option :print-success false)\n(set-logic ALL)\n(set-option :timeout 1500)\n")
	for _, n := range o0.DeclOrder {
		b.WriteString(o0.DeclMap[n])
		b.WriteByte('\n')
	}
	for _, a := range o0.Axioms {
		b.WriteString("(assert " + a + ")\n")
	}
	for _, g := range o0.Distinct {
		if len(g) > 1 {
			b.WriteString("(assert (distinct " + strings.Join(g, " ") + "))\n")
		}
	}
	var order []*Obligation
	var walk func(n *trieNode)
	walk = func(n *trieNode) {
		if n.assumption != "" {
			b.WriteString("(push 1)\n(assert " + n.assumption + ")\n")
		}
		for _, o := range n.obls {
			order = append(order, o)
			b.WriteString("(push 1)\n(assert (not " + o.Goal + "))\n(check-sat)\n(pop 1)\n")
		}
		for _, k := range n.kids {
			walk(k)
		}
		if n.assumption != "" {
			b.WriteString("(pop 1)\n")
		}
	}
	walk(root)
	file := filepath.Join(cfg.WorkDir, "batch_"+mangle(fname)+".smt2")
	os.WriteFile(file, b.Bytes(), 0o644)
	limit := time.Duration(20+2*len(order)/10) * time.Second
	if limit > 240*time.Second {
		limit = 240 * time.Second
	}
	ctx, cancel := context.WithTimeout(context.Background(), limit)
	defer cancel()
	t0 := time.Now()
	cmd := exec.CommandContext(ctx, "z3-new", fmt.Sprintf("smt.random_seed=%d", cfg.Seed), file)
	out, _ := cmd.Output()
	dur := time.Since(t0).Seconds()
	sc := bufio.NewScanner(bytes.NewReader(out))
	i := 0
	for sc.Scan() && i < len(order) {
		line := strings.TrimSpace(sc.Text())
		switch line {
		case "unsat":
			order[i].Status, order[i].Backend = "discharged", "z3-new(batch)"
			order[i].TimeS = dur / float64(len(order))
			order[i].SMTFile = file
			i++
		case "sat", "unknown", "timeout":
			i++
		default:
			// error text etc.: ignore the line
		}
	}
}

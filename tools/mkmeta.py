#!/usr/bin/env python3
"""Writes seeded/<id>/meta.json from the table below, confirm.json (what was re-run here) and detection.txt."""
import json, os, re
T = {
 'C01-A': ('C01', 'snapMsgList.uidRange returns sequence numbers one too high', 'a UID range lookup (UID FETCH/STORE/SEARCH with a range) on a view of at least two messages'),
 'C01-B': ('C01', 'fetch.handle no longer clones the flag set: the snapshot aliases the responder\'s map', 'STORE FLAGS on one message followed by a flag change on another message sharing the update'),
 'C03-A': ('C03', 'RemoveMessagesFromMailbox chunks a pre-converted []any: append into a chunk overwrites the first id of the next chunk', 'removing more than 1000 messages in one call (EXPUNGE/MOVE of >1000)'),
 'C03-B': ('C03', 'GetMessagesFlags keeps only the rows of the last chunk', 'more than 1000 ids in one call (STORE over >1000 messages)'),
 'C03-C': ('C03', 'applyMessageFlagsAdded tests the client spelling of a flag instead of the lower-cased one', '+FLAGS with a flag the message already has in another letter case, then -FLAGS, then a fresh view'),
 'C04-C': ('C04', 'EpochUIDValidityGenerator computes the timestamp in int64 seconds and no longer rejects a clock before the epoch', 'wall clock earlier than the generator epoch'),
 'C04-D': ('C04', 'GetMailboxUID answers MAX(uid)+1 of the mailbox table unless it is empty', 'expunge of the highest-UID message while older ones remain'),
 'C05-A': ('C05', 'popResponders skips re-classifying a prefix counted as held by an earlier flush', 'expunge held by a FETCH, message put back, second FETCH/STORE/SEARCH, then NOOP'),
 'C05-B': ('C05', 'handleSelectedCommand flushes with permitExpunge = (err != nil)', 'pending expunge from another session and a FETCH/STORE/SEARCH answered NO'),
 'C05-C': ('C05', 'Mailbox.ExpungeIssued forgets an expunge when a later EXISTS of the same message is queued', 'message moved out and back by other sessions while the observer only issues FETCH/STORE/SEARCH'),
 'C06-A': ('C06', 'user.apply returns early for *imap.Noop without acknowledging it', 'a connector sends an imap.Noop update and waits on it'),
 'C06-B': ('C06', 'applyMessageUpdated compares the stored literal with the raw update literal instead of the normalised one', 'a MessageUpdated that only restates current state'),
 'C10-A': ('C10', 'isByteCTL treats 0x1F as a non-control byte', 'a command containing the byte 0x1F'),
 'C10-B': ('C10', 'ParseNumber rejects values at the upper end of the 32-bit range', 'a number between the lowered bound and 4294967295'),
 'C10-C': ('C10', 'BODY.PEEK keyword matched case-sensitively', 'body.peek[...] written in lower or mixed case'),
 'C11-A': ('C11', 'parseListMailbox loops on EOF inside a list-mailbox', 'LIST command truncated by EOF inside the pattern'),
 'C11-B': ('C11', 'ParseLiteral mishandles a zero-size literal', 'a {0} literal'),
 'C11-C': ('C11', 'session command loop: a syntax error after a literal produces a wrong number of completions', 'a command with a literal followed by a syntax error'),
 'C13-A': ('C13', 'empty-valued header field: valueEnd computed as valueStart+2', 'empty-valued field ending in a bare LF followed by another field'),
 'C13-B': ('C13', 'readToBoundary returns data starting at s.progress instead of the part start', 'multipart with a boundary look-alike inside a non-last part'),
 'C13-C': ('C13', 'Section.load scans children to the end of the literal instead of the section end', 'nested multipart that lacks its own closing delimiter'),
 'C13-D': ('C13', 'WithPartial clamps with count > len instead of begin+count > len', 'partial with begin < len, count <= len, begin+count > len'),
 'C16-A': ('C16', 'uidRange computes uidHi+1 in 32 bits', 'a UID range whose upper bound is 4294967295'),
 'C16-B': ('C16', 'sequence-set numbers just above 32 bits accepted', 'a sequence number 2^32 + k in a set'),
 'C17-A': ('C17', 'CheckUIDCount adds in 32 bits (UID.Add) before comparing', 'next UID + count that wraps 2^32'),
 'C17-B': ('C17', 'MoveMessagesFromMailbox checks the limits of the source mailbox', 'MOVE from a small mailbox into a full one'),
 'C18-A': ('C18', 'LIST "" "" answered by handleAnyCommand before LOGIN', 'exactly LIST "" "" before LOGIN'),
 'C18-B': ('C18', 'jail timer no longer resets the login-error counter', 'keep failing after the first jail without a success in between'),
 'C02-A': ('C02', 'MoveMessagesFromMailbox announces the removal from the source mailbox with the message-only filter instead of message+mailbox', 'the message is in two mailboxes, the observer has the other one selected, another session MOVEs it out of the first'),
 'C02-B': ('C02', 'State.close no longer drops the pending responders of the closed mailbox', 'an update queued for mailbox X, then SELECT of another mailbox, then NOOP'),
 'C07-C': ('C07', 'newUser runs the orphan sweep before the purge of messages marked deleted', 'two messages marked for deletion at start-up and one failing cache-file delete during the purge'),
 'C07-D': ('C07', 'getLiteral caches the re-downloaded literal without the internal-id header it returns', 'cache file of a listed message lost, message fetched twice (also across restart)'),
 'C08-A': ('C08', 'wrapTx returns before Rollback when the error wraps context.Canceled', 'a Write callback that wrote and then returns an error wrapping context.Canceled'),
 'C08-B': ('C08', 'CreateMessages hoists its argument slices out of the chunk loop and does not reset the flag arguments', 'one call with more than 1000 requests and a flagged message outside the last batch'),
 'C12-C': ('C12', 'ScanAll drops parts whose data is empty (len(data) != 0 instead of data != nil)', 'a multipart with two consecutive delimiter lines'),
 'C12-D': ('C12', 'parameter/header values without a double quote are written between quotes unescaped', 'a header or MIME parameter value ending in a backslash'),
 'C14-A': ('C14', 'RENAME rewrites every occurrence of the old name in an inferior (ReplaceAll)', 'an inferior whose path contains the old name a second time'),
 'C14-B': ('C14', 'match anchors the regular expression unless the pattern contains % anywhere', 'a % that is not the last character of the pattern'),
 'C20-C': ('C20', 'MessageHashesMap.Erase deletes the id before looking the hash up: the hash is never forgotten', 'rejected APPEND, the copy leaves the recovery mailbox, the same bytes are rejected again'),
 'C20-D': ('C20', 'actionCreateRecoveredMessage returns the error of the de-duplication hash instead of ignoring it', 'a rejected APPEND of a message whose text part declares base64 that does not decode'),
 'C01-C': ('C01', 'responses still in the IDLE bulk buffer at DONE are dropped', 'an update arriving in the last bulk interval before DONE'),
 'C01-D': ('C01', 'fetch.canSkip lets a FETCH be merged across an EXPUNGE of a lower sequence number', 'one flush with a flag change on message n, an expunge below n and a flag change on the message renumbered to n'),
 'C01-E': ('C01', 'fetch.handle is also silent when the command in progress is a silent STORE', 'another session changes flags and the next command of the observer is STORE ... .SILENT'),
 'C05-D': ('C05', 'handleCheck no longer flushes with permitExpunge', 'a removal pending when the observer sends CHECK'),
 'C05-E': ('C05', '[EXPUNGEISSUED] omitted for UID SEARCH', 'a pending removal and UID SEARCH'),
 'C03-D': ('C03', 'UID EXPUNGE loses the toExpunge filter (loop turned into xslices.Map)', 'a UID set naming a message that is not marked deleted'),
 'C03-E': ('C03', 'applyMessageFlagsSet writes the per-mailbox deleted column only when the new set holds the deleted flag', 'STORE FLAGS without the deleted flag on a deleted message, seen from a fresh view'),
 'C13-E': ('C13', 'ScanAll drops empty parts (len(data) != 0)', 'a multipart with a zero-length part'),
 'C17-C': ('C17', 'CheckMailBoxMessageCount compares the existing count only', 'existing < max < existing + n with n >= 2'),
 'C06-C': ('C06', 'applyMessagesCreated leaves early when there is nothing to create OR nothing to assign', 'a batch naming only known messages with a new mailbox assignment'),
 'C10-D': ('C10', 'partial offset parsed with ParseNZNumber', 'BODY[]<0.n>'),
 'C10-E': ('C10', 'unquoted astring collected with IsAtomChar', 'an unquoted astring containing ]'),
 'C10-F': ('C10', 'ID field name must be a quoted string', 'an ID parameter name sent as a literal'),
 'C16-C': ('C16', '* in a UID set resolves to the message count', 'a view whose highest UID differs from its size and a UID set with *'),
 'C16-D': ('C16', 'STORE beyond the view answered NO instead of BAD', 'STORE with a number beyond the view'),
 'C18-C': ('C18', 'handleLogin trims blanks around user name and password', 'a quoted/literal credential with leading or trailing blanks'),
}
for sid, (prop, what, needs) in sorted(T.items()):
    d = '/verif/seeded/' + sid
    if not os.path.isdir(d):
        continue
    conf = json.load(open(d + '/confirm.json')) if os.path.exists(d + '/confirm.json') else {}
    det = open(d + '/detection.txt').read() if os.path.exists(d + '/detection.txt') else ''
    viol = re.findall(r'^VIOLATION property=(\S+) replay=\S+( no-failing-input-found)?\n\s+(?:obligation|family) (\S+)', det, re.M)
    meta = {
        'id': sid, 'breaks_property': prop, 'change': what, 'needs_to_manifest': needs,
        'patch': 'patch.diff (apply with `git -C /repo apply`, undo with `git -C /repo checkout -- .`)',
        'demonstration': sorted(os.listdir(d + '/demo')),
        'confirmed_here': conf.get('confirmed', False),
        'what_was_run': {k: conf.get(k) for k in ('base_commit', 'demo_without_change', 'build_with_change', 'demo_with_change', 'unit_tests_with_change', 'wire_suite_with_change') if k in conf},
        'detected_by': [{'check': p, 'obligation': o, 'counterexample_replayed_on_real_code': nf == ''} for p, nf, o in viol],
        'detected': bool(viol),
    }
    if sid == 'C03-C':
        meta['note'] = 'no longer manifests through its demonstration after fix 6df9473 (case-insensitive removal deletes both spellings); kept for the record, not counted'
    json.dump(meta, open(d + '/meta.json', 'w'), indent=1)
print('ok')

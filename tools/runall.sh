#!/bin/bash
# usage: tools/runall.sh [tier] — runs every claimed check, prints exit code, obligation counts and wall time
tier=${1:-quick}
for p in $(python3 -c "import json;print(' '.join(c['property_id'] for c in json.load(open('/verif/MANIFEST.json'))['checks']))"); do
  out=$(/verif/check $p $tier 2>&1); rc=$?
  python3 - "$p" "$rc" <<'PY'
import json,sys
p,rc=sys.argv[1],sys.argv[2]
e=json.load(open('/verif/evidence/%s.json'%p)); c=e['coverage']
print(p,'exit='+rc,'obl=%s dis=%s'%(c.get('obligations'),c.get('discharged')),'undecided=%s'%(len(c.get('undecided') or [])),'known=%s'%c.get('known_finding_obligations_excluded'),'wall=%.1f'%e.get('wall_s',0))
PY
  echo "$out" | grep -E "VIOLATION|UNDECIDED" | cut -c1-220
done

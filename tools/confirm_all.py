#!/usr/bin/env python3
"""Confirms every seeded change under /verif/seeded in a scratch worktree of /repo at HEAD:
patch applies, tree builds, the demonstration passes without the change and fails with it, the existing unit tests
pass with it, the wire suite (tests/) passes with it (up to 5 attempts: the suite is flaky under load).
Writes seeded/<id>/confirm.json. usage: confirm_all.py [id ...]"""
import json, os, re, subprocess, sys, shutil
ENV = dict(os.environ, GOFLAGS='-mod=mod', GOPROXY='off', GOSUMDB='off', GOTOOLCHAIN='local')
WT = '/tmp/wt/confirm'
SEEDS = {
 # id: (dest dir of demos in repo, package, -run regex)
 'C11-A': ('imap/command', './imap/command', 'TestC11A'), 'C11-B': ('rfcparser', './rfcparser', 'TestC11B'),
 'C11-C': ('tests', './tests', 'TestC11C'), 'C17-A': ('limits', './limits', 'TestCheckUIDCount_NoWrapAround'),
 'C17-B': ('tests', './tests', 'TestMaxMessageLimitRespected_Move|TestMaxUIDLimitRespected_Move'),
 'C01-A': ('internal/state', './internal/state', 'TestUIDRangeSeqAgreesWithOtherLookups'),
 'C01-B': ('tests', './tests', 'TestStoreReplaceFlags'),
 'C10-A': ('imap/command', './imap/command', 'TestMutationA'), 'C10-B': ('imap/command', './imap/command', 'TestMutationB'),
 'C10-C': ('imap/command', './imap/command', 'TestMutationC'),
 'C16-A': ('internal/state', './internal/state', 'TestDemoA'), 'C16-B': ('imap/command', './imap/command', 'TestDemoB'),
 'C03-A': ('internal/db_impl/sqlite3', './internal/db_impl/sqlite3', 'TestMutationA'),
 'C03-B': ('internal/db_impl/sqlite3', './internal/db_impl/sqlite3', 'TestMutationB'),
 'C03-C': ('tests', './tests', 'TestMutationC'),
 'C05-A': ('internal/state', './internal/state', 'TestC05MutA'), 'C05-B': ('tests', './tests', 'TestC05MutB'),
 'C05-C': ('tests', './tests', 'TestC05MutC'),
 'C06-A': ('tests', './tests', 'TestDemoC06A'), 'C06-B': ('tests', './tests', 'TestDemoC06B'),
 'C04-C': ('imap', './imap', 'TestDemoC04C'), 'C04-D': ('tests', './tests', 'TestDemoC04D'),
 'C13-A': ('rfc822', './rfc822', 'TestMutA'), 'C13-B': ('rfc822', './rfc822', 'TestMutB'), 'C13-C': ('rfc822', './rfc822', 'TestMutC'),
 'C13-D': ('internal/response', './internal/response', 'TestMutD'),
 'C18-A': ('tests', './tests', 'TestDemoA'), 'C18-B': ('tests', './tests', 'TestDemoB'), 'C18-C': ('tests', './tests', 'TestDemoC'),
 'C02-A': ('tests', './tests', 'TestDemoC02A'), 'C02-B': ('tests', './tests', 'TestDemoC02B'),
 'C07-C': ('tests', './tests', 'TestDemoC07C'), 'C07-D': ('tests', './tests', 'TestDemoC07D'),
 'C08-A': ('internal/db_impl/sqlite3', './internal/db_impl/sqlite3', 'TestDemoA_'), 'C08-B': ('internal/db_impl/sqlite3', './internal/db_impl/sqlite3', 'TestDemoB_'),
 'C12-C': ('imap', './imap', 'TestDemoC_'), 'C12-D': ('imap', './imap', 'TestDemoD_'),
 'C14-A': ('tests', './tests', 'TestDemoC14A'), 'C14-B': ('tests', './tests', 'TestDemoC14B'),
 'C20-C': ('tests', './tests', 'TestDemoC20C'), 'C20-D': ('tests', './tests', 'TestDemoC20D'),
 'C01-C': ('tests', './tests', 'TestDemoIdleDone'), 'C01-D': ('internal/response', './internal/response', 'TestDemoMerge'),
 'C01-E': ('internal/state', './internal/state', 'TestDemoForeignFlagChange'), 'C05-D': ('tests', './tests', 'TestDemoCheck'),
 'C05-E': ('tests', './tests', 'TestDemoUIDSearch'),
 'C03-D': ('tests', './tests', 'TestDemoA_'), 'C03-E': ('tests', './tests', 'TestDemoB_'), 'C13-E': ('rfc822', './rfc822', 'TestDemoC_'),
 'C17-C': ('limits', './limits', 'TestDemoD_'), 'C06-C': ('tests', './tests', 'TestDemoE_'),
 'C10-D': ('imap/command', './imap/command', 'TestMutA_'), 'C10-E': ('imap/command', './imap/command', 'TestMutB_'),
 'C10-F': ('imap/command', './imap/command', 'TestMutC_'), 'C16-C': ('internal/state', './internal/state', 'TestMutD_'),
 'C16-D': ('tests', './tests', 'TestMutE_'),
 'C04-E': ('tests', './tests', 'TestDemoRenameInboxOverDeletedName'), 'C04-F': ('tests', './tests', 'TestDemoCopyUIDAnnouncesDestinationValidity'),
 'C08-C': ('internal/db_impl/sqlite3', './internal/db_impl/sqlite3', 'TestDemoSetMailboxMessagesDeletedFlagAllBatchSizes'),
 'C08-D': ('internal/db_impl/sqlite3', './internal/db_impl/sqlite3', 'TestDemoMailboxFilterContainsAllBatchSizes'),
 'C02-C': ('tests', './tests', 'TestDemoStoreFlagsInOtherMailboxKeepsViewsConverged'),
 'C11-D': ('imap/command', './imap/command', 'TestDemoC11A_'), 'C11-E': ('rfcparser', './rfcparser', 'TestDemoC11B_'),
 'C11-F': ('imap/command', './imap/command', 'TestDemoC11C_'), 'C12-E': ('imap', './imap', 'TestDemoC12D_'), 'C12-F': ('imap', './imap', 'TestDemoC12E_'),
 'C18-D': ('tests', './tests', 'TestC18CloseLeavesSelectedState'), 'C18-E': ('connector', './connector', 'TestC18DummyAuthorizeIsExact'),
 'C14-C': ('tests', './tests', 'TestC14CreateMakesEveryMissingSuperior'), 'C20-E': ('tests', './tests', 'TestC20RemoteRefusalKeepsBytesInRecovery'),
 'C17-D': ('tests', './tests', 'TestC17ConnectorMessageCreatedOverLimitHasNoPartialEffect'),
 'C10-G': ('imap/command', './imap/command', 'TestDemoA_'), 'C10-H': ('imap/command', './imap/command', 'TestDemoB_'),
 'C06-D': ('tests', './tests', 'TestDemoC_BatchWithRedelivered'), 'C08-E': ('internal/db_impl/sqlite3', './internal/db_impl/sqlite3', 'TestDemoD_AddFlagToMessagesBeyondOneBatch'),
 'C08-F': ('internal/db_impl/sqlite3', './internal/db_impl/sqlite3', 'TestDemoE_MailboxTranslateRemoteIDsSkipsUnknownIDs'),
 'C01-F': ('tests', './tests', 'TestMutA_'), 'C01-G': ('tests', './tests', 'TestMutB_'), 'C05-F': ('tests', './tests', 'TestMutC_'),
 'C05-G': ('tests', './tests', 'TestMutD_'), 'C16-E': ('rfcparser', './rfcparser', 'TestMutE_ParseNumberBoundary'),
 'C13-F': ('rfc822', './rfc822', 'TestW6aA_ScannerIgnoresLongerBoundary'), 'C13-G': ('tests', './tests', 'TestW6aB_'),
 'C07-E': ('tests', './tests', 'TestW6aC_'), 'C03-F': ('tests', './tests', 'TestW6aD_'), 'C07-F': ('tests', './tests', 'TestW6aE_'),
 'C14-D': ('tests', './tests', 'TestDemoA_RenameOnlyRewritesTheLeadingPath'), 'C17-E': ('tests', './tests', 'TestDemoB_MultiMessageCopyCannotCrossMessageLimit'),
 'C20-F': ('tests', './tests', 'TestDemoC_RejectedAppendIsKeptAgainAfterRecoveryExpunge'), 'C10-I': ('imap/command', './imap/command', 'TestDemoA_AppendDateTimeZonesBeyondTwelveHours'),
 'C11-G': ('imap/command', './imap/command', 'TestDemoB_TagIsKeptWhenCRIsNotFollowedByLF'), 'C18-F': ('tests', './tests', 'TestDemoC_CloseOfExaminedMailboxLeavesSelectedState'),
}
# demo files that belong to another package than the main demo (skipped in the confirmation run)
SKIP = {'C13-F': ['w6a_a_nested_boundary_test.go'], 'C10-H': ['demo_b_id_wire_test.go'], 'C08-E': ['demo_d_store_wire_test.go'], 'C08-F': ['demo_e_single_unknown_mailbox_wire_test.go'], 'C16-E': ['mut_e_test.go'], 'C18-E': ['zz_c18_login_exact_test.go'], 'C11-D': ['zz_demo_c11a_wire_test.go'], 'C01-D': ['demo_merge_expunge_wire_test.go'], 'C01-E': ['demo_silent_store_wire_test.go'], 'C13-E': ['demo_c_fetch_empty_part_test.go'], 'C17-C': ['demo_d_message_limit_test.go'], 'C01-A': ['c01_uid_range_seq_test.go'], 'C16-A': ['zz_demo_a_wire_test.go'], 'C16-B': ['zz_demo_b_wire_test.go'], 'C05-A': ['c05_mutA_readd_demo_test.go']}

def sh(cmd, timeout=900, cwd=WT):
    try:
        p = subprocess.run(cmd, shell=True, cwd=cwd, env=ENV, capture_output=True, text=True, timeout=timeout)
        return p.returncode, p.stdout + p.stderr
    except subprocess.TimeoutExpired:
        return 124, 'TIMEOUT'

def summary(out):
    ls = [l for l in out.splitlines() if re.match(r'^(ok|FAIL|--- FAIL|panic)', l)]
    return ' | '.join(ls[:6])[:600]

def reset():
    sh('git checkout -q -- . && git clean -fdq')

def main():
    ids = sys.argv[1:] or sorted(SEEDS)
    if not os.path.isdir(WT):
        subprocess.run(['git', '-C', '/repo', 'worktree', 'add', '--detach', WT, 'HEAD'], check=True, capture_output=True)
    else:
        head = subprocess.run(['git', '-C', '/repo', 'rev-parse', 'HEAD'], capture_output=True, text=True).stdout.strip()
        sh('git checkout -q --detach ' + head)
    base = subprocess.run(['git', '-C', WT, 'rev-parse', '--short', 'HEAD'], capture_output=True, text=True).stdout.strip()
    for sid in ids:
        dest, pkg, rx = SEEDS[sid]
        sd = '/verif/seeded/' + sid
        res = {'seed': sid, 'base_commit': base, 'commands': []}
        reset()
        demos = [f for f in os.listdir(sd + '/demo') if f[:-4] not in SKIP.get(sid, [])]
        def put():
            for f in demos:
                shutil.copy(sd + '/demo/' + f, os.path.join(WT, dest, 'zzseed_' + f[:-4]))
        def rm():
            for f in demos:
                try: os.remove(os.path.join(WT, dest, 'zzseed_' + f[:-4]))
                except FileNotFoundError: pass
        demo_cmd = f"go test -vet=off -count=1 -timeout 180s -run '{rx}' {pkg}"
        put(); rc, out = sh(demo_cmd); rm()
        res['demo_without_change'] = {'cmd': demo_cmd, 'exit': rc, 'summary': summary(out)}
        rc, out = sh(f'git apply {sd}/patch.diff')
        res['patch_applies'] = (rc == 0)
        if rc != 0:
            res['error'] = out[:400]
        else:
            rc, out = sh('go build ./...'); res['build_with_change'] = {'exit': rc, 'out': out[-300:]}
            put(); rc, out = sh(demo_cmd); rm()
            res['demo_with_change'] = {'cmd': demo_cmd, 'exit': rc, 'summary': summary(out)}
            unit_cmd = "go test -vet=off -count=1 -timeout 15m $(go list ./... | grep -v '/tests$\\|/benchmarks')"
            rc, out = sh(unit_cmd, 1000); res['unit_tests_with_change'] = {'cmd': unit_cmd, 'exit': rc, 'failures': summary('\n'.join(l for l in out.splitlines() if not l.startswith('ok')))}
            wire_cmd = 'GOMAXPROCS=4 go test -vet=off -count=1 -timeout 4m ./tests/'
            res['wire_suite_with_change'] = []
            for attempt in (1, 2, 3, 4, 5):
                rc, out = sh(wire_cmd, 300)
                res['wire_suite_with_change'].append({'cmd': wire_cmd, 'attempt': attempt, 'exit': rc, 'summary': summary(out)})
                if rc == 0: break
            res['confirmed'] = bool(res['demo_without_change']['exit'] == 0 and res['build_with_change']['exit'] == 0 and
                                    res['demo_with_change']['exit'] != 0 and res['unit_tests_with_change']['exit'] == 0 and
                                    res['wire_suite_with_change'][-1]['exit'] == 0)
        json.dump(res, open(sd + '/confirm.json', 'w'), indent=1)
        print(sid, 'confirmed' if res.get('confirmed') else 'NOT CONFIRMED', flush=True)
    reset()
    subprocess.run(['git', '-C', '/repo', 'worktree', 'remove', '--force', WT])

main()

#!/usr/bin/env python3
# Regenerates /verif/MANIFEST.json from the table below (claims) and properties.jsonl (ids).
import json, subprocess

CLAIMS = {
 "C01": dict(
  text="Deductive proof (VCs from the real Go source, discharged by z3/cvc5) that every mutator of the per-session snapshot list keeps it dense, strictly UID-ascending and index-consistent, with whole-view postconditions (insert appends exactly one message, remove shifts exactly one position, lookups return the position they claim). This is the inductive core of 'announced view = answered view'; the responders (expunge / targetedExists / fetch handle) and popResponders are under contract as well; response.Merge never merges into, skips over, drops or moves an EXPUNGE response (every implementation of mergeWith / canSkip is proved to refuse an EXPUNGE, appendOrMergeResponse keeps every EXPUNGE at its index, Merge keeps every one of them).",
  note="Assumes session confinement of State (C19), the dependency specs of slices.BinarySearchFunc and xslices.Insert, mathematical heap model (no goroutines). The responders are under contract too (EXPUNGE removes exactly the message and announces its old position, EXISTS grows the view by one and announces the new count, FETCH keeps positions and never aliases the responder's flag map); State.close drops the view and every queued response. Undecided: flushResponses (the loop that runs the responders), snapshot construction from SQL rows; known finding: a message inserted in the middle of the view is announced by a bare EXISTS.",
  ref="DESIGN.md §4 C01"),


 "C02": dict(
  text="Deductive proof that the state-update filters are exactly the predicates the delivery relies on: AllStateFilter, MBoxIDStateFilter and AnyMessageIDStateFilter are characterised exactly (true iff selected / same mailbox / some listed message in the view), MessageIDStateFilter and MessageAndMBoxIDStateFilter are sound and accept every state whose view contains the message; the removal of a moved message is addressed with the (message, source mailbox) filter, one update per message; closing the selected mailbox drops the view and every queued response. The clause taken from the property - a state in which the message's EXISTS is still queued must be accepted too - fails on the real code and is recorded as a known finding (wire-confirmed).",
  note="Assumes session confinement. Undecided: broadcast (QueueOrApplyStateUpdate), FIFO queue, quiescence, cross-goroutine timing, SQL reads of a fresh session.",
  ref="DESIGN.md §4 C02"),
 "C06": dict(
  text="Deductive proof that user.apply acknowledges every connector update exactly once (ghost counter on the update) with exactly the error of the dispatched apply function, on every path including unknown update kinds; plus the whole-module syntactic obligation that nothing else calls Update.Done.",
  note="The per-kind apply functions are trusted (arbitrary heap effect). Undecided: the update loop (select/goroutine, out of the verified subset), idempotence of the write-the-difference functions, SQL effects.",
  ref="DESIGN.md §4 C06"),
 "C18": dict(
  text="Deductive proof of the gating in the session dispatch: handlers of mailbox/message commands require an authenticated session (and the selected mailbox) as preconditions that are proved at every call site of the verified dispatch functions; handleAuthenticatedCommand / handleSelectedCommand answer ErrNotAuthenticated without touching the state when not logged in; the selected-state callback only runs with a mailbox; Backend.getUserID returns an id only for a user whose connector authorized exactly these credentials, returns none on failure, counts failures, resets on success and answers the third consecutive failure with ErrLoginBlocked; the function the jail timer runs resets the counter; handleLogin hands the backend exactly the bytes of the command's user name and password, only when the session has no state, and an authenticated session is refused and keeps its state; GetState passes exactly its credentials to getUserID and returns a state only on success.",
  note="Handler bodies are trusted; State.Selected, Connector.Authorize are abstract models. Undecided: jail timing (timer/WaitGroup), what handleLogin does with the state after GetState (its contract says modifies heap), handleIdle, cross-user isolation of files.",
  ref="DESIGN.md §4 C18"),
 "C03": dict(
  text="Deductive proof of the Go side of every bulk database operation behind APPEND/STORE/EXPUNGE/COPY/MOVE: for every list length (below, at and beyond the 1000/500 statement-batching limit) each statement handed to the driver has exactly as many arguments as `?` placeholders and begins with the statement kind its helper expects; the statements of chunk k of the twelve chunked operations carry exactly the k-th chunk of the input, in order, followed by the trailing arguments (call-site assertions over the boxed arguments); chunked reads return every row of every chunk; STORE FLAGS always writes the replacement set (also the empty one) and the per-mailbox \\Deleted column, -FLAGS compares flags without regard to case; EXPUNGE / UID EXPUNGE hand the removal transaction only ids of messages of the view that carry the \\Deleted mark; no index/nil/overflow obligation remains open. Five genuine defects found this way were repaired (IDs beyond the first chunk never removed; flags set on the first message of a chunk only; MailboxExistsWithID misspelled; STORE FLAGS () kept the old flags; -FLAGS in another letter case kept the flag).",
  note="Assumes: the trusted placeholder precondition of the SQL helper functions (go-sqlite3 ignores surplus arguments), fmt.Sprintf/strings.Join/Repeat placeholder arithmetic, xslices.Chunk specification, SQLite executes the text as written. Undecided: the SQL text itself, the reference semantics of whole command sequences, flag algebra, store bytes, NO/BAD roll-back (wrapTx).",
  ref="DESIGN.md §4 C03"),
 "C04": dict(
  text="Deductive (sequential) proof that each UIDVALIDITY generator hands out a value strictly greater than its previous low-water mark, which it becomes (so values of one generator instance strictly increase), and the obligation that UIDNEXT = highest AUTOINCREMENT value + 1 does not wrap (currently a recorded known finding at 2^32-1).",
  note="Assumes sequential use of the generator (atomics specified without interference), wall clock arbitrary, SQLite AUTOINCREMENT never reuses values. Undecided: restarts, delete/re-create histories, APPENDUID/COPYUID pass-through.",
  ref="DESIGN.md §4 C04"),
 "C05": dict(
  text="Deductive proof that State.popResponders releases everything in order when expunges are permitted and otherwise releases no *expunge responder, holds back only *expunge/*targetedExists responders, loses or duplicates nothing (count) and keeps every expunge queued; plus whole-module syntactic obligations: only expunge.handle may construct an EXPUNGE response, flush(…, permitExpunge=true) may only be called from the handlers of commands that permit EXPUNGE, State.flushResponses(…, true) only from beginIdle / Mailbox.Flush; every implementation of Responder.getMessageID is effect-free.",
  note="Assumes session confinement (C19). State.flushResponses is proved to return no EXPUNGE response when expunges are not permitted (the call of Responder.handle is resolved over its three implementations - closed world, unexported method - each proved to produce an EXPUNGE only if it is the *expunge responder; Merge adds none). The handlers of CHECK, EXPUNGE, UID EXPUNGE, CLOSE and MOVE are proved to flush with permitExpunge; FETCH, STORE and SEARCH put [EXPUNGEISSUED] into their OK exactly when an *expunge responder is queued. Mailbox.ExpungeIssued is proved to answer exactly 'an *expunge responder is queued'. response.Merge keeps every EXPUNGE response (see C01). In the handler contracts callee preconditions are assumed (nosafety pre) and closure bodies are not verified. Undecided: order preservation inside pop/rem beyond the counted partition, the held-exists-after-held-expunge rule, the flushes NOOP / STATUS / APPEND issue from inside closures, IDLE (goroutines).",
  ref="DESIGN.md §4 C05"),
 "C08": dict(
  text="Deductive proof, for all list lengths, of the Go side of all read/write operations of the SQLite implementation (69 functions): placeholder/argument agreement of every statement, chunk arguments, GenSQLIn called with a positive count, result accumulation loops, no open safety obligation. The SQL strings are not interpreted.",
  note="Same trusted base as C03. Two operations that splice configured flag names into the SQL text (AddFlagsToAllMailboxes / AddPermFlagsToAllMailboxes) are outside the claim. Undecided: equivalence with a relational model (needs SQL semantics), transactions.",
  ref="DESIGN.md §4 C08"),
 "C12": dict(
  text="Deductive proof for the rfc822 layer on arbitrary bytes: Split cuts at one index; the header parser terminates, never indexes out of range, and returns entries that lie inside the header, are ordered and tile it; NewHeader terminates; the multipart scanner terminates and every part it reports lies inside the data at the recorded offset; Section accessors are adjacent slices of the literal; parse builds a well-formed Section; Section.load gives every section children that lie inside the body of their parent (positions compared in the shared backing array, also through embedded message/rfc822), and its recursion strictly decreases the section length. The texts of ENVELOPE, BODY and BODYSTRUCTURE are balanced parenthesised lists: a ghost depth per list writer (one up for '(', one down for ')') is proved unchanged by every item writer (strings, numbers, maps, address lists, disposition), by envelope and - when they succeed - by the three mutually recursive walkers over the section tree, whose recursion is proved to descend ((section length, rank) decreases lexicographically; section position fields and section slices are proved never to be assigned after construction); Structure closes exactly the group it opened. ScanAll reports every part readToBoundary delivers.",
  note="Assumes bytes.Index/Trim specs. Stack depth of the recursion is bounded by the input length only (measured: 10^6 nested message/rfc822 levels, the 30 MB literal limit, run within the default stack). Assumed: what writeString writes (NIL, numbers, strconv.Quote'd strings) contains no structural parenthesis - the quoting itself is not verified; Header/Section accessors used by the writers are trusted (no effect on the writers). Undecided: Part/Walk drivers, rfc5322 address/date parsers, balanced parentheses of ENVELOPE/BODYSTRUCTURE output, structure = MIME tree.",
  ref="DESIGN.md §4 C12"),
 "C13": dict(
  text="Deductive proof on the slicing layer of FETCH: a partial <o.n> is exactly literal[o : min(o+n, len)] (empty beyond the end) with no overflow for 32-bit offsets/counts; Header()/Body()/Literal() of a section are adjacent slices (BODY[HEADER]++BODY[TEXT] = BODY[]); header entries tile the header (no byte lost between HEADER.FIELDS and HEADER.FIELDS.NOT at the entry level); multipart parts start at their recorded offset. Two genuine defects found this way were repaired (empty-valued header field; truncated last part).",
  note="Assumes 0 <= offset, 0 < count <= 2^32-1 at WithPartial's call site (established by the parser's number bound, C16). Undecided: Header.Fields/FieldsNot loops over the linked list, SetHeaderValueNoMemCopy, literal framing, store round trip (C09).",
  ref="DESIGN.md §4 C13"),
 "C10": dict(
  text="Deductive proof that the scanner classifies every byte value into exactly the RFC 3501 character class (total, loop-free, so complete), that ByteToLower/ByteToInt are the arithmetic they claim, that the token look-ahead of the parser is the next unread byte of the source, and that number / sequence-number / sequence-range / sequence-set parsers return values within the ranges written. Every RFC 3501 ATOM-CHAR / ASTRING-CHAR is accepted as one (known finding: `[` is refused) and an unquoted astring stops exactly in front of the first byte that is no ASTRING-CHAR. For the arguments of LOGIN, SELECT, EXAMINE, CREATE, DELETE, RENAME, SUBSCRIBE, UNSUBSCRIBE, STATUS, LIST, LSUB, APPEND, COPY, MOVE, FETCH, STORE, UID EXPUNGE, ID, header lists and FETCH partials the parser is proved to read each argument with the production the RFC grammar names (mailbox / userid / password / header-fld-name = astring, nstring = string or NIL, partial = number '.' nz-number, sequence-set). Keywords are matched case-insensitively: the case-sensitive matcher Parser.ConsumeBytes has no caller in the module (syntactic whole-module obligation). Composite commands (fetch attributes, search keys, ...) are not under functional contract.",
  note="Assumes the Reader model (finite byte sequence then EOF forever, trusted spec of Reader.ReadByte). Undecided: exact decimal value of numbers, strings/literals, dates, composite command grammar, case-insensitivity of keywords, chunking independence beyond byte-wise reads.",
  ref="DESIGN.md §4 C10"),
 "C11": dict(
  text="Deductive proof of termination and bounded growth for the parser core: Advance strictly decreases a measure (unread bytes, look-ahead) unless the source is exhausted; every loop under contract carries a decreases clause on that measure; results are bounded by the input consumed; no panic / overflow / out-of-range obligations remain open in the functions under contract (91: the parser core, every command and argument parser, the FETCH partial item, and the charset decoder of the SEARCH handler, which is only used when the charset has an implementation - a genuine crash found there was repaired).",
  note="Assumes the Reader model. Open finding: unbounded recursion depth of search keys. Undecided: session loop (one completion per command, error counting, silent close on a non-parser error of ParseLiteral), input collector growth, line length, process RSS, other sessions.",
  ref="DESIGN.md §4 C11"),
 "C16": dict(
  text="Deductive proof, for every sequence set and every view size, that written numbers fit 32 bits (type invariant of SeqNum established by the parser), that resolution of numbers/ranges/'*' yields the RFC interval (min/max, '*' = last), that a sequence-number set fails with ErrNoSuchMessage exactly when some number lies beyond the message count or the view is empty, that every returned message is the one at its sequence number and lies in a requested range, and that UID sets never fail on a non-empty view and return only messages whose UID lies in a requested range; the FETCH, STORE and SEARCH handlers answer BAD (not NO, not an error) when the state reports a sequence set beyond the view; a SEARCH sequence-set key fails exactly like FETCH's and a SEARCH UID-set key never fails (a genuine defect found here was repaired).",
  note="Assumes dependency specs (BinarySearchFunc), sorted/indexed snapshot invariant at entry (proved preserved under C01). Undecided: completeness of the concatenation across ranges (proved per range in seqRange/uidRange only), which messages the closure built for a SEARCH message-set key selects (closure bodies are outside the contracts), duplicates in the result for overlapping ranges. Known deviation pinned by the existing tests: `n:*` with n above the highest UID selects nothing (RFC 3501 says it includes the last message) — see DESIGN.md.",
  ref="DESIGN.md §4 C16"),
 "C17": dict(
  text="Deductive proof that the four limit checks are exact for all inputs (nil iff the resulting count / UID is within the configured maximum, including the deliberate wrap-around test on int64 addition), and return the documented error. Also proved: AddMessagesToMailbox / MoveMessagesFromMailbox read count and next UID of the DESTINATION mailbox in the same transaction and write nothing unless both checks passed; State.Create and State.Rename check the mailbox limit for every mailbox they are about to create (name, missing parents, the mailbox that receives INBOX's messages when INBOX is renamed; two genuine defects found here were repaired).",
  note="Assumes non-negative counts at the call sites (stated as preconditions). Assumes the abstract transaction model (ghost write counter, uninterpreted count/next-UID functions). Undecided: AppendRegular (check on a read-only client outside the inserting transaction), connector-side creation, all-or-nothing via wrapTx, concurrency.",
  ref="DESIGN.md §4 C17"),
 "C07": dict(
  text="Deductive proof of the transaction wrapper every database write goes through (sqlite3 Client.wrapTx): for every operation and every failing step, a nil result means exactly one successful commit and no rollback, an error result means nothing was committed, every transaction begun is ended exactly once and at most one is begun. This is the 'before or after, never half' clause for the database part of every operation; Also proved: the three state actions that create a message row (actionCreateMessage, actionCreateRecoveredMessage, actionImportRecoveredMessage) hand the database only an id whose literal was written to the store earlier in the same call (abstract store model: a successful Set adds the id and keeps the others), so an error or crash between the two leaves at most an unreferenced file, never a listed message without bytes; getLiteral, when it has to download a literal again, puts into the cache exactly the slice it returns (at most one store write). At start-up (newUser) the purge of messages marked for deletion runs before the sweep that removes cache files without a row.",
  note="Assumes the database/sql model in contracts/deps/sql.spec (BeginTx/Commit/Rollback counters; SQLite makes a commit atomic and durable), op does not commit/roll back itself, the recover()/re-panic path is not modelled. The store model is assumed (membership only, no bytes). NOT decided (no contract within reach): process death at arbitrary points, WAL recovery, the connector-driven creation path (parallel store writes in closures), deletion order, clean-up of left-overs on restart, message bytes on disk.",
  ref="DESIGN.md §4 C07"),
 "C14": dict(
  text="Deductive proof of the protection clauses of the namespace model, for every name: CREATE of INBOX and DELETE of INBOX (case-insensitive, after modified-UTF-7 decoding) are refused by the session handlers before the state is touched; LIST and LSUB hand the state the reference and the pattern decoded from modified UTF-7 (the empty reference as is); State.Create refuses every name with the recovery-mailbox prefix (case-insensitive), State.Delete and State.Rename refuse the recovery mailbox as source or destination with ErrOperationNotAllowed - in each case before any write transaction is started (ghost transaction counter unchanged).",
  note="strings.EqualFold/ToLower/HasPrefix are uninterpreted functions (foldEq, lower, hasPrefix); stateDBWrite is trusted to start exactly one transaction; closure bodies passed to stateDBWrite are outside these guard contracts (nocallbacks), callee preconditions after the guard are not checked in the guard-only contracts. NOT decided: the hierarchy/subscription reference model over command sequences, LIST/LSUB pattern matching (regular-expression translation in match.go: regexp is outside the verifier), \\Noselect, connector-driven mailbox updates.",
  ref="DESIGN.md §4 C14"),
 "C20": dict(
  text="Deductive proof of the client-protection clauses of the recovery mailbox, for every name: it cannot be created (State.Create), deleted (State.Delete), renamed from or onto (State.Rename), appended to (State.AppendOnlyMailbox) or be the destination of COPY / MOVE (Mailbox.Copy / Mailbox.Move): each returns an error (ErrOperationNotAllowed) before any write transaction is started. The hash set that makes recovery 'once per distinct message' is proved consistent: Insert remembers id and hash together or changes nothing; Erase forgets the ids and, for every id it forgets, its hash (so the same bytes can be recovered again once the earlier copy has left). The fall-back insertion (actionCreateRecoveredMessage) still hands the literal to the store when the de-duplication hash itself fails, and writes the row only for stored bytes.",
  note="Same assumptions as C14. NOT decided: 'answered OK implies stored under the announced UID', the fall-back insertion into the recovery mailbox for every remote failure pattern, once-per-distinct-message (hash set), listing exactly while non-empty, copy/move out of the recovery mailbox.",
  ref="DESIGN.md §4 C20"),
}

NA = {
 "C15": "the search evaluator compiles the key tree into closures stored in structs and run in parallel goroutines (buildSearchOp / Search); closures held as data and goroutines are outside the verified subset, and the text keys depend on rfc822/charset decoding libraries: no contract within reach states 'exactly the matching messages'",
 "C09": "store Set/Get is a goroutine + io.Pipe pipeline over LZ4, AES-GCM and the file system; 'returns exactly the stored bytes' can only be assumed of those dependencies, and the rest is reader/writer exclusion (concurrency): no contract within reach states the property",
 "C19": "data races, deadlock freedom and goroutine leaks are properties of schedules; the verifier has no thread, lock-order or happens-before model",
}

props = [json.loads(l) for l in open('/verif/properties.jsonl')]
hook_commits = subprocess.run(['git','-C','/repo','log','--format=%h %s'],capture_output=True,text=True).stdout.splitlines()
hooks = [l.split()[0] for l in hook_commits if 'verif hook' in l]
m = {
 "version": 1,
 "setup_cmd": "cd /verif/govc && GOFLAGS=-mod=mod GOPROXY=off GOSUMDB=off GOTOOLCHAIN=local go build -o /verif/bin/govc .",
 "hooks": {
  "guard": "verif",
  "enable": "-tags verif: contract files /repo/<pkg>/zz_verif_contracts.go are comment-only and carry //go:build verif; the checks load /repo with go/packages -tags=verif",
  "baseline_off_cmd": "for m in $(cat /w/out/gomods.txt); do MF=$(cd /repo/$m && . /w/out/goenv.sh && gomodflag); (cd /repo/$m && go test $MF -json -vet=off -count=1 -timeout 25m ./...); done",
  "source_commits": hooks,
  "add_only": True
 },
 "engines": [{"name": "govc", "path": "/verif/govc", "serves_properties": sorted(CLAIMS), "kind_free_text": "verification-condition generator for Go (forward symbolic execution over go/ast + go/types of the real sources, Gobra-style //@ contracts in build-tagged comment files, one SMT-LIB query per obligation, z3-new / z3 / cvc5 raced)"}],
 "checks": [],
 "notes": "Contract-based deductive verification of the real code; see DESIGN.md. Known findings: /verif/known_findings.json; baseline obligation families: /verif/baseline/families.json.",
 "not_applicable": []
}
for p in props:
    i = p['id']
    if i in CLAIMS:
        c = CLAIMS[i]
        m["checks"].append({
          "property_id": i,
          "quick_cmd": f"/verif/check {i} quick",
          "thorough_cmd": f"/verif/check {i} thorough",
          "evidence_file": f"/verif/evidence/{i}.json",
          "replay_cmd_template": "/verif/check --replay {path}",
          "engine": "govc",
          "level_claimed": {"category": "proof", "text": c["text"], "design_ref": c["ref"]},
          "level_note": c["note"],
          "technique": "contract-based deductive verification: weakest-precondition style VCs generated from the Go AST of /repo, discharged by SMT (z3 / cvc5)"
        })
    else:
        m["not_applicable"].append({"property_id": i, "reason": NA.get(i, "not yet claimed: contracts for this property are not discharged yet (machinery under construction; planned decision in DESIGN.md §4)")})
json.dump(m, open('/verif/MANIFEST.json','w'), indent=1)
print("checks:", [c["property_id"] for c in m["checks"]])

#!/bin/bash
# usage: confirm_seed.sh <worktree> <patch.diff> <demo test file> <demo path in repo> <pkg (./x/y)> <test regex> <seed name>
# Confirms in the scratch worktree: builds with the change, existing tests pass with it, demo fails with it and passes without.
wt="$1"; patch="$2"; demo="$3"; demopath="$4"; pkg="$5"; re="$6"; name="$7"
export GOFLAGS=-mod=mod GOPROXY=off GOSUMDB=off GOTOOLCHAIN=local
log=/tmp/confirm_$name.log; : > $log
cd "$wt" || exit 2
git checkout -q -- . ; git clean -fdq -e out
find . -name zz_verif_contracts.go -delete
cp "$demo" "$demopath"
r_clean=$(go test -vet=off -count=1 -timeout 120s -run "$re" "$pkg" 2>&1 | grep -E "^(ok|FAIL|---|panic)" | head -3 | tr '\n' ' ')
echo "demo on clean tree: $r_clean" >> $log
rm -f "$demopath"
git apply "$patch" || { echo "apply failed" >> $log; exit 3; }
b=$(go build ./... 2>&1 | tail -3); echo "build with change: ${b:-ok}" >> $log
cp "$demo" "$demopath"
r_mut=$(go test -vet=off -count=1 -timeout 120s -run "$re" "$pkg" 2>&1 | grep -E "^(ok|FAIL|--- FAIL|panic)" | head -3 | tr '\n' ' ')
echo "demo with change: $r_mut" >> $log
rm -f "$demopath"
u=$(go test -vet=off -count=1 -timeout 15m $(go list ./... | grep -v "/tests$\|/benchmarks\|/demo\|/out/") 2>&1 | grep -E "^(FAIL|---|panic)" | head -5 | tr '\n' ' ')
echo "unit tests with change: ${u:-all ok}" >> $log
for attempt in 1 2 3; do
  w=$(GOMAXPROCS=4 timeout 600 go test -vet=off -count=1 -timeout 9m ./tests/... 2>&1 | grep -E "^(ok|FAIL|--- FAIL|panic)" | head -4 | tr '\n' ' ')
  echo "wire tests with change (attempt $attempt): ${w:-timeout/hang}" >> $log
  case "$w" in ok*) break;; esac
done
git checkout -q -- . ; git clean -fdq -e out
find . -name zz_verif_contracts.go -delete

#!/bin/bash
# usage: confirm_seed.sh <worktree> <outdir with patch.diff + demo test> <demo path in repo> <pkg of demo (./x/y)> <test regex> <seed name>
# Confirms in the scratch worktree: builds with the change, existing tests pass with it, demo fails with it and passes without.
wt="$1"; out="$2"; demopath="$3"; pkg="$4"; re="$5"; name="$6"
export GOFLAGS=-mod=mod GOPROXY=off GOSUMDB=off GOTOOLCHAIN=local
log=/tmp/confirm_$name.log; : > $log
cd "$wt" || exit 2
git checkout -q -- . ; git clean -fdq -e out
find . -name zz_verif_contracts.go -delete
demo=$(ls "$out"/*_test.go | head -1)
# clean tree: demo passes
cp "$demo" "$demopath"
r_clean=$(go test -vet=off -count=1 -timeout 120s -run "$re" "$pkg" 2>&1 | tail -1)
echo "demo on clean tree: $r_clean" >> $log
rm -f "$demopath"
# mutated
git apply "$out/patch.diff" || { echo "apply failed" >> $log; exit 3; }
b=$(go build ./... 2>&1 | tail -3); echo "build with change: ${b:-ok}" >> $log
cp "$demo" "$demopath"
r_mut=$(go test -vet=off -count=1 -timeout 120s -run "$re" "$pkg" 2>&1 | tail -3 | tr '\n' ' ')
echo "demo with change: $r_mut" >> $log
rm -f "$demopath"
u=$(go test -vet=off -count=1 -timeout 15m $(go list ./... | grep -v "/tests$\|/benchmarks\|/demo") 2>&1 | grep -E "^(FAIL|---|panic)" | head -5)
echo "unit tests with change: ${u:-all ok}" >> $log
w=$(timeout 1500 go test -vet=off -count=1 -timeout 20m ./tests/... 2>&1 | grep -E "^(ok|FAIL|--- FAIL|panic)" | head -5 | tr '\n' ' ')
echo "wire tests with change: $w" >> $log
git checkout -q -- . ; git clean -fdq -e out
find . -name zz_verif_contracts.go -delete
cat $log

#!/usr/bin/env python3
"""Prints the markdown table of seeded changes (DESIGN.md §0.6) from seeded/*/meta.json."""
import json, glob
print("| seed | breaks | change (needs to manifest) | confirmed | caught by (first reported obligation) | replayed |")
print("|---|---|---|---|---|---|")
n = c = 0
for f in sorted(glob.glob('/verif/seeded/*/meta.json')):
    m = json.load(open(f))
    det = m['detected_by']
    # prefer an obligation that is not a mere side effect (post / callsite / closure / callers / argpolicy first)
    pref = [d for d in det if any(k in d['obligation'] for k in ('#post.', '#callsite.', '#closure.', '#callers', '#argpolicy', '#variant'))]
    first = (pref or det or [{'obligation': '— (not caught)', 'check': ''}])[0]
    rep = 'yes' if any(d['counterexample_replayed_on_real_code'] for d in det) else ('no' if det else '')
    conf = 'yes' if m['confirmed_here'] else 'no'
    note = m.get('note', '')
    print(f"| {m['id']} | {m['breaks_property']} | {m['change']} ({m['needs_to_manifest']}){' — ' + note if note else ''} | {conf} | {first['check']} `{first['obligation']}` | {rep} |")
    if m['confirmed_here']:
        n += 1
        if det:
            c += 1
print(f"\n{c} of {n} confirmed seeded changes are reported by a check.")

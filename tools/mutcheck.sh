#!/bin/bash
# usage: tools/mutcheck.sh <patch.diff> <prop> [<prop>...]
# Runs the checks against a scratch copy of /repo with the patch applied (nothing in /repo or /verif changes).
set -u
patch="$1"; shift
id=$(basename "$(dirname "$patch")")_$$
root=/tmp/mut/$id
rm -rf "$root"; mkdir -p "$root/repo" "$root/verif"
rsync -a --exclude .git /repo/ "$root/repo/"
(cd "$root/repo" && patch -p1 -s --no-backup-if-mismatch < "$patch") || { echo "PATCH FAILED"; rm -rf "$root"; exit 3; }
cp -r /verif/contracts /verif/baseline /verif/known_findings.json "$root/verif/" 2>/dev/null
export GOFLAGS=-mod=mod GOPROXY=off GOSUMDB=off GOTOOLCHAIN=local
(cd "$root/repo" && go build ./... 2>&1 | head -5)
rc=0
for p in "$@"; do
  out=$(REPO_DIR="$root/repo" VERIF_DIR="$root/verif" /verif/bin/govc check -prop "$p" 2>&1)
  r=$?
  echo "== $p exit=$r"
  echo "$out" | grep -E "VIOLATION|UNDECIDED|obligation|KNOWN|load:|contracts:" | cut -c1-260 | head -8
  [ $r -ne 0 ] && rc=1
done
rm -rf "$root"
exit $rc

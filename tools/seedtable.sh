#!/bin/bash
# usage: tools/seedtable.sh [ids...] : which checks catch which seeded change (writes seeded/<id>/detection.txt)
declare -A PROPS=( [C01-A]="C01 C16" [C01-B]="C01" [C03-A]="C03 C08" [C03-B]="C03 C08" [C03-C]="C03" [C04-C]="C04" [C04-D]="C04 C08" [C05-A]="C05" [C05-B]="C05" [C05-C]="C05" [C06-A]="C06" [C06-B]="C06" [C10-A]="C10" [C10-B]="C10 C16" [C10-C]="C10" [C11-A]="C11" [C11-B]="C11" [C11-C]="C11" [C13-A]="C13 C12" [C13-B]="C13 C12" [C13-C]="C13 C12" [C13-D]="C13" [C16-A]="C16" [C16-B]="C16" [C17-A]="C17" [C17-B]="C17" [C18-A]="C18" [C18-B]="C18" [C18-C]="C18" [C02-A]="C02" [C02-B]="C02 C01" [C07-C]="C07" [C07-D]="C07" [C08-A]="C08 C07" [C08-B]="C08" [C12-C]="C12" [C12-D]="C12" [C14-A]="C14" [C14-B]="C14" [C20-C]="C20" [C20-D]="C20" [C01-C]="C01" [C01-D]="C01 C05" [C01-E]="C01" [C05-D]="C05" [C05-E]="C05" [C03-D]="C03" [C03-E]="C03" [C13-E]="C13 C12" [C17-C]="C17" [C06-C]="C06" [C10-D]="C10" [C10-E]="C10" [C10-F]="C10" [C16-C]="C16" [C16-D]="C16" [C04-E]="C04" [C04-F]="C04" [C08-C]="C08 C03" [C08-D]="C08" [C02-C]="C02 C03" [C11-D]="C11 C16" [C11-E]="C11" [C11-F]="C11" [C12-E]="C12 C13" [C12-F]="C12" [C18-D]="C18" [C18-E]="C18" [C14-C]="C14 C17" [C20-E]="C20" [C17-D]="C17 C06" [C10-G]="C10" [C10-H]="C10" [C06-D]="C06" [C08-E]="C08 C03" [C08-F]="C08" [C01-F]="C01" [C01-G]="C01" [C05-F]="C05" [C05-G]="C05" [C16-E]="C16 C10" [C13-F]="C13 C12" [C13-G]="C13 C20" [C07-E]="C07 C06" [C03-F]="C03 C02 C04" [C07-F]="C07 C08" [C14-D]="C14" [C17-E]="C17" [C20-F]="C20" [C10-I]="C10" [C11-G]="C11 C10" [C18-F]="C18" )
ids=${@:-$(ls /verif/seeded | grep -v "^_" | sort)}
for id in $ids; do
  out=$(/verif/tools/mutcheck.sh /verif/seeded/$id/patch.diff ${PROPS[$id]} 2>&1)
  echo "$out" > /verif/seeded/$id/detection.txt
  det=$(echo "$out" | grep -c "^VIOLATION")
  first=$(echo "$out" | grep -A1 "^VIOLATION" | grep "obligation\|family" | head -1 | sed 's/^ *//' | cut -c1-150)
  echo "$id props=${PROPS[$id]} violations=$det :: $first"
done
